#!/bin/bash
cd "$(dirname "$0")/.." 2>/dev/null
for c in ${CHECKS:-C18 C20 C17 C07 C12 C14 C19 C03 C06 C09 C11 C16 C13 C08 C05 C04 C02 C10 C15 C01}; do
  s=$(date +%s); out=$(./check $c --tier thorough 2>&1); rc=$?; e=$(date +%s)
  echo "$c rc=$rc $((e-s))s $(echo "$out" | grep -c '^VIOLATION') violations :: $(echo "$out" | tail -1 | cut -c1-200)"
  echo "$out" | grep -A2 '^VIOLATION' | head -30
done
