#!/bin/bash
# Runs every check's quick (or $1) tier against /repo and validates MANIFEST and evidence against the schemas.
tier="${1:-quick}"
cd /verif
fail=0
for i in 01 02 03 04 05 06 07 08 09 10 11 12 13 14 15 16 17 18 19 20; do
  start=$(date +%s)
  out=$(./check C$i --tier "$tier" 2>&1); rc=$?
  end=$(date +%s)
  echo "C$i rc=$rc $((end-start))s $(echo "$out" | tail -1 | cut -c1-160)"
  [ $rc -ne 0 ] && fail=1
done
python3-vt - <<'PY'
import json, jsonschema, glob
jsonschema.validate(json.load(open('/verif/MANIFEST.json')), json.load(open('/root/.vp/MANIFEST.schema.json')))
es=json.load(open('/root/.vp/EVIDENCE.schema.json'))
for f in sorted(glob.glob('/verif/evidence/*.json')):
    try:
        jsonschema.validate(json.load(open(f)), es)
    except Exception as e:
        print('INVALID', f, str(e)[:200])
print('schemas checked')
PY
exit $fail
