#!/venv/bin/python
"""Regenerates /verif/MANIFEST.json from the table below (kept in one place so
the manifest is always valid and `not_applicable` is always current)."""
import json
import os

HERE = os.path.dirname(os.path.dirname(os.path.abspath(__file__)))

# id -> (level category, level text, level note, technique)   (only built checks)
CHECKS = {
    'C12': ('exploration',
            'bounded exhaustive enumeration: every text over {a,space,LF,CR} up to length 7 (quick) / 9 (thorough) x every offset x three position implementations against an independent splitter; parseinfo spans over a named-rule grammar corpus against the reference evaluator; (c) parse information of every model node over the type-annotated templates (rule of the class; the span re-parses from that rule to the same node)',
            'trusted: the independent splitter and the reference evaluator; alphabet limited to LF/CR/CRLF line breaks',
            'exhaustive bounded enumeration of inputs x offsets against a reference model'),
}

PENDING_REASON = 'check not built yet at this commit (work in progress; see DESIGN.md section 3 for the planned decision procedure)'

ALL = [f'C{i:02d}' for i in range(1, 21)]


def main():
    from importlib import util
    spec = util.spec_from_file_location('table', os.path.join(HERE, 'tools', 'checktable.py'))
    checks = dict(CHECKS)
    na = {}
    if os.path.exists(spec.origin):
        mod = util.module_from_spec(spec)
        spec.loader.exec_module(mod)
        checks.update(mod.CHECKS)
        na.update(getattr(mod, 'NOT_APPLICABLE', {}))
    man = {
        'version': 1,
        'setup_cmd': 'true',
        'hooks': {
            'guard': 'TATSU_VERIF',
            'enable': 'no source hooks: every seam is reached from the harness; checks import /repo/tatsu as it is on disk (PYTHONPATH=/repo) in fresh interpreters',
            'baseline_off_cmd': 'cd /repo && /venv/bin/python -m pytest -ra -q -p no:cacheprovider --timeout=900 --continue-on-collection-errors',
            'source_commits': [],
            'add_only': True,
        },
        'engines': [{
            'name': 'mc', 'path': '/verif/mc', 'serves_properties': sorted(checks),
            'kind_free_text': 'hand-written bounded exhaustive explorers over the real code (program x input enumeration against a reference evaluator, deviation-bounded stateless exploration with a choice recorder, explicit-state BFS over event histories, baton thread scheduler, deterministic executor)',
        }],
        'checks': [],
        'not_applicable': [],
    }
    for pid in ALL:
        if pid in checks:
            cat, text, note, tech = checks[pid]
            man['checks'].append({
                'property_id': pid,
                'quick_cmd': f'./check {pid} --tier quick',
                'thorough_cmd': f'./check {pid} --tier thorough',
                'evidence_file': f'/verif/evidence/{pid}.json',
                'replay_cmd_template': f'./check {pid} --replay {{path}}',
                'engine': 'mc',
                'level_claimed': {'category': cat, 'text': text, 'design_ref': f'DESIGN.md section 3 {pid}'},
                'level_note': note,
                'technique': tech,
            })
        else:
            man['not_applicable'].append({'property_id': pid, 'reason': na.get(pid, PENDING_REASON)})
    with open(os.path.join(HERE, 'MANIFEST.json'), 'w') as f:
        json.dump(man, f, indent=1)
        f.write('\n')
    print('claimed:', sorted(checks), 'unclaimed:', [x['property_id'] for x in man['not_applicable']])


if __name__ == '__main__':
    main()
