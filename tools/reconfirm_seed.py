#!/venv/bin/python
"""Re-confirm a stored seed against /repo HEAD after its patch was re-expressed: demo passes on a clean worktree,
patch applies, demo fails on the patched worktree, the 470 baseline tests still pass.  usage: reconfirm_seed.py <seed-id> [--skip-tests]"""
import json
import os
import subprocess
import sys

sid = [a for a in sys.argv[1:] if not a.startswith('--')][0]
d = f'/verif/seeded/{sid}'
wt = f'/dev/shm/seedwt/re-{sid}'
os.makedirs('/dev/shm/seedwt', exist_ok=True)
env = dict(os.environ, PYTHONDONTWRITEBYTECODE='1', PYTHONPATH=wt)


def sh(cmd, **kw):
    return subprocess.run(cmd, shell=True, capture_output=True, text=True, **kw)


sh(f'git -C /repo worktree remove --force {wt}')
assert sh(f'git -C /repo worktree add -q --detach {wt} HEAD').returncode == 0
try:
    r0 = sh(f'/venv/bin/python {d}/demo.py {wt}', cwd=wt, env=env)
    ra = sh(f'git apply {d}/patch.diff', cwd=wt)
    r1 = sh(f'/venv/bin/python {d}/demo.py {wt}', cwd=wt, env=env)
    ok_tests = True
    if '--skip-tests' not in sys.argv:
        rt = sh(f'/venv/bin/python /verif/tools/baseline.py {wt}', env={k: v for k, v in env.items() if k != 'PYTHONPATH'})
        ok_tests = rt.returncode == 0
    ok = r0.returncode == 0 and ra.returncode == 0 and r1.returncode != 0 and ok_tests
    meta = json.load(open(f'{d}/meta.json'))
    meta['reconfirmed'] = {'head': sh('git -C /repo rev-parse --short HEAD').stdout.strip(), 'demo_clean_exit': r0.returncode,
                           'patch_applies': ra.returncode == 0, 'demo_patched_exit': r1.returncode, 'baseline_470_pass': ok_tests if '--skip-tests' not in sys.argv else 'not re-run', 'confirmed': ok}
    json.dump(meta, open(f'{d}/meta.json', 'w'), indent=1)
    print(sid, 'reconfirmed' if ok else 'NOT CONFIRMED', meta['reconfirmed'])
    if not ok:
        print((r0.stdout + r0.stderr)[-400:], (r1.stdout + r1.stderr)[-300:])
finally:
    sh(f'git -C /repo worktree remove --force {wt}')
