#!/bin/bash
# Runs every seeded change against the check of the property it was written for; prints one line each.
# Seeds whose meta.json carries "obsolete" (made equivalent by a later fix: commit in /repo) are skipped.
cd /verif
for d in seeded/*/; do
  sid=$(basename $d); prop=${sid%%-*}
  if grep -q '"obsolete"' $d/meta.json; then echo "$sid skipped (obsolete)"; continue; fi
  tools/runseed.sh $sid $prop quick
done
