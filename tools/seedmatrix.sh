#!/bin/bash
# Runs every seeded change against the check of the property it was written for; prints one line each.
cd /verif
for d in seeded/*/; do
  sid=$(basename $d); prop=${sid%%-*}
  tools/runseed.sh $sid $prop quick
done
