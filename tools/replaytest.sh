#!/bin/bash
sid=$1; chk=$2
wt=/dev/shm/replaytest-$sid; git -C /repo worktree add -q --detach $wt HEAD; git -C $wt apply /verif/seeded/$sid/patch.diff
out=$(VERIF_REPO=$wt /verif/check $chk 2>&1 | grep "^VIOLATION" | head -2)
for f in $(echo "$out" | sed 's/.*replay=//'); do
  VERIF_REPO=$wt /verif/check $chk --replay $f > /dev/shm/replay-$sid.out 2>&1; a=$?
  /verif/check $chk --replay $f > /dev/shm/replay-$sid-clean.out 2>&1; b=$?
  echo "$sid $chk $(basename $f) patched-exit=$a clean-exit=$b :: $(grep -m1 VIOLATION /dev/shm/replay-$sid.out | cut -c1-100)"
done
git -C /repo worktree remove --force $wt
