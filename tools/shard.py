#!/venv/bin/python
"""Development aid: run one shard function of a check serially over a named item list and print what it reports.
usage: VERIF_REPO=<tree> tools/shard.py c02 shard_codegen CODEGEN_CASES [key=value ...]"""
import importlib
import json
import os
import sys

sys.path.insert(0, '/verif')
repo = os.environ.get('VERIF_REPO', '/repo')
sys.path.insert(0, repo)
from mc import runner  # noqa: E402

runner.assert_tree()
mod = importlib.import_module(f'mc.checks.{sys.argv[1]}')
func = getattr(mod, sys.argv[2])
items = getattr(mod, sys.argv[3])
items = list(items() if callable(items) else items)
extra = dict(a.split('=', 1) for a in sys.argv[4:])
m = runner.Merge()
func(m, items, **extra)
print(json.dumps(m.counts, indent=None))
for v in m.violations:
    print('V', v['signature'], json.dumps(v['detail'], ensure_ascii=True)[:600])
