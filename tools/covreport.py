#!/venv/bin/python
"""usage: tools/covreport.py Cxx [--all]
Runs the quick tier of a check with VERIF_COV set and lists, for the files the property is anchored in, the
executable lines the check never ran (blind spots: a change there cannot be noticed).  Measuring aid only."""
import json
import os
import shutil
import subprocess
import sys

prop = sys.argv[1]
d = f'/dev/shm/verif-cov/{prop}'
shutil.rmtree(d, ignore_errors=True)
env = dict(os.environ, VERIF_COV=d, VERIF_WRITE_EVIDENCE='', COVERAGE_CORE='sysmon')
r = subprocess.run(['/verif/check', prop, '--tier', 'quick'], env=env, capture_output=True, text=True)
print(r.stdout.strip().split('\n')[-1][:200])
# lines that run at import time (def/class statements) are measured in a fresh interpreter that imports every module
subprocess.run(['/venv/bin/python', '-c', f'''
import coverage, os, sys
sys.path.insert(0, "/repo")
cov = coverage.Coverage(data_file=os.path.join({d!r}, ".coverage"), data_suffix=True, include=["/repo/tatsu/*"])
cov.start()
import pkgutil, importlib, tatsu
for m in pkgutil.walk_packages(tatsu.__path__, "tatsu."):
    try:
        importlib.import_module(m.name)
    except BaseException:
        pass
cov.stop(); cov.save()
'''], env=dict(os.environ, COVERAGE_CORE='sysmon'))
import coverage
cov = coverage.Coverage(data_file=os.path.join(d, '.coverage'))
cov.combine([d])
anchors = []
for l in open('/verif/properties.jsonl'):
    p = json.loads(l)
    if p['id'] == prop:
        anchors = p['anchors']['files']
files = anchors if '--all' not in sys.argv else sorted(cov.get_data().measured_files())
for f in files:
    path = f if f.startswith('/') else os.path.join('/repo', f)
    if not os.path.isfile(path):
        continue
    try:
        _, stmts, _, missing, fmt = cov.analysis2(path)
    except Exception as e:  # noqa
        print(f, 'not measured:', e)
        continue
    print(f'{f}: {len(stmts) - len(missing)}/{len(stmts)} lines; missing: {fmt}')
shutil.rmtree(d, ignore_errors=True)
