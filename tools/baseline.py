#!/venv/bin/python
"""Run the repository's pinned suite in <tree> (default /repo) and report
which of the 470 stable-pass tests do not pass.  usage: baseline.py [tree] [-k expr]"""
import json, os, subprocess, sys, tempfile, xml.etree.ElementTree as ET

tree = sys.argv[1] if len(sys.argv) > 1 and not sys.argv[1].startswith('-') else '/repo'
extra = [a for a in sys.argv[1:] if a != tree]
base = json.load(open('/root/.vp/BASELINE.json'))
stable = set(base['stable_pass'])
out = tempfile.mktemp(suffix='.xml', dir='/dev/shm')
env = dict(os.environ, PYTHONPATH=tree, PYTHONDONTWRITEBYTECODE='1')
env.pop('TATSU_VERIF', None)
cmd = ['/venv/bin/python', '-m', 'pytest', '-q', '-p', 'no:cacheprovider', '--timeout=900',
       '--continue-on-collection-errors', f'--junitxml={out}', '-x' if False else '-q', *extra]
r = subprocess.run(cmd, cwd=tree, env=env, capture_output=True, text=True)
passed = set()
failed = set()
for tc in ET.parse(out).getroot().iter('testcase'):
    name = f"{tc.get('classname')}::{tc.get('name')}"
    bad = any(ch.tag in ('failure', 'error', 'skipped') for ch in tc)
    (failed if bad else passed).add(name)
os.unlink(out)
missing = sorted(stable - passed)
print(f'tree={tree} passed={len(passed)} failed_or_skipped={len(failed)} stable_missing={len(missing)}')
for m in missing[:40]:
    print('  NOT PASSING:', m)
newly = sorted(passed - stable)
print(f'  passing beyond baseline: {len(newly)}')
sys.exit(1 if missing else 0)
