#!/venv/bin/python
"""Confirm a sub-agent's seeded change and store it under /verif/seeded/<id>/.

usage: ingest_seed.py C05 m1 [--skip-tests]
Confirms, in a fresh scratch worktree of /repo HEAD (removed afterwards):
  demo passes on the clean tree, patch applies, demo fails on the patched tree,
  the 470 baseline tests still pass on the patched tree.
"""
import json
import os
import shutil
import subprocess
import sys
import time

prop, mut = sys.argv[1], sys.argv[2]
skip_tests = '--skip-tests' in sys.argv
root = os.environ.get('SEED_ROOT', '/tmp/wt')
tag = os.environ.get('SEED_TAG', '')
src = f'{root}/{prop}/_seed/{mut}'
sid = f'{prop}-{tag}{mut}'
dst = f'/verif/seeded/{sid}'
wt = f'/dev/shm/seedwt/{sid}'
os.makedirs('/dev/shm/seedwt', exist_ok=True)
env = dict(os.environ, PYTHONDONTWRITEBYTECODE='1', PYTHONPATH=wt)
env.pop('TATSU_VERIF', None)


def sh(cmd, **kw):
    return subprocess.run(cmd, shell=True, capture_output=True, text=True, **kw)


subprocess.run(f'git -C /repo worktree remove --force {wt}', shell=True, capture_output=True)
r = sh(f'git -C /repo worktree add -q --detach {wt} HEAD')
assert r.returncode == 0, r.stderr
meta = {'id': sid, 'property': prop, 'source': 'independent sub-agent given only the property text and a scratch worktree'}
try:
    demo = f'{src}/demo.py'
    r0 = sh(f'/venv/bin/python {demo} {wt}', cwd=wt, env=env)
    meta['demo_clean_exit'] = r0.returncode
    ra = sh(f'git apply {src}/patch.diff', cwd=wt)
    meta['patch_applies'] = ra.returncode == 0
    r1 = sh(f'/venv/bin/python {demo} {wt}', cwd=wt, env=env)
    meta['demo_patched_exit'] = r1.returncode
    meta['demo_patched_tail'] = (r1.stdout + r1.stderr)[-600:]
    if not skip_tests:
        t0 = time.time()
        rt = sh(f'/venv/bin/python /verif/tools/baseline.py {wt}', env={k: v for k, v in env.items() if k != 'PYTHONPATH'})
        meta['baseline_470_pass'] = rt.returncode == 0
        meta['baseline_tail'] = rt.stdout[-400:]
        meta['baseline_wall_s'] = round(time.time() - t0)
    meta['confirmed'] = (meta['demo_clean_exit'] == 0 and meta['patch_applies'] and meta['demo_patched_exit'] != 0
                         and meta.get('baseline_470_pass', skip_tests))
    notes = open(f'{src}/notes.md').read() if os.path.exists(f'{src}/notes.md') else ''
    meta['needs_to_manifest'] = notes[:2500]
    meta['ran'] = ['demo.py on clean worktree of /repo HEAD', 'git apply patch.diff', 'demo.py on patched worktree',
                   'tools/baseline.py (the pinned 470-test suite) on the patched worktree']
    os.makedirs(dst, exist_ok=True)
    shutil.copy(f'{src}/patch.diff', f'{dst}/patch.diff')
    shutil.copy(demo, f'{dst}/demo.py')
    json.dump(meta, open(f'{dst}/meta.json', 'w'), indent=1)
    print(sid, 'confirmed' if meta['confirmed'] else 'NOT CONFIRMED', {k: meta[k] for k in meta if k.startswith(('demo_c', 'demo_patched_e', 'patch', 'baseline_4'))})
finally:
    subprocess.run(f'git -C /repo worktree remove --force {wt}', shell=True, capture_output=True)
