#!/bin/bash
# usage: tools/runseed.sh <seed-id> <CHECK> [tier]   — run a check against a seeded change in a scratch worktree
sid="$1"; chk="$2"; tier="${3:-quick}"
wt="/dev/shm/runseed/$sid-$chk-$$"
mkdir -p /dev/shm/runseed
git -C /repo worktree add -q --detach "$wt" HEAD || exit 2
git -C "$wt" apply "/verif/seeded/$sid/patch.diff" || { git -C /repo worktree remove --force "$wt"; exit 2; }
VERIF_REPO="$wt" /verif/check "$chk" --tier "$tier" > "/dev/shm/runseed/$sid-$chk.log" 2>&1
rc=$?
git -C /repo worktree remove --force "$wt"
nv=$(grep -c '^VIOLATION' "/dev/shm/runseed/$sid-$chk.log")
echo "$sid $chk $tier exit=$rc violations=$nv $(grep -m1 'signature:' /dev/shm/runseed/$sid-$chk.log)"
exit $rc
