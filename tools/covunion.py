#!/venv/bin/python
"""usage: tools/covunion.py C01 C02 ...   — union line coverage of the tatsu tree over the quick tiers of the named
checks (plus import-time lines); prints, per file, the executable lines no named check ran.  Measuring aid only."""
import os
import shutil
import subprocess
import sys

d = '/dev/shm/verif-cov/union'
shutil.rmtree(d, ignore_errors=True)
for prop in sys.argv[1:]:
    env = dict(os.environ, VERIF_COV=d, VERIF_WRITE_EVIDENCE='', COVERAGE_CORE='sysmon', VERIF_REPO='/repo')
    r = subprocess.run(['/verif/check', prop, '--tier', 'quick'], env=env, capture_output=True, text=True)
    print(r.stdout.strip().split('\n')[-1][:160], flush=True)
subprocess.run(['/venv/bin/python', '-c', f'''
import coverage, os, sys
sys.path.insert(0, "/repo")
cov = coverage.Coverage(data_file=os.path.join({d!r}, ".coverage"), data_suffix=True, include=["/repo/tatsu/*"])
cov.start()
import pkgutil, importlib, tatsu
for m in pkgutil.walk_packages(tatsu.__path__, "tatsu."):
    try:
        importlib.import_module(m.name)
    except BaseException:
        pass
cov.stop(); cov.save()
'''], env=dict(os.environ, COVERAGE_CORE='sysmon'), capture_output=True)
import coverage
cov = coverage.Coverage(data_file=os.path.join(d, '.coverage'))
cov.combine([d])
for f in sorted(cov.get_data().measured_files()):
    try:
        _, stmts, _, missing, fmt = cov.analysis2(f)
    except Exception:
        continue
    if missing:
        print(f'{f.replace("/repo/", "")}: {len(stmts) - len(missing)}/{len(stmts)}; missing: {fmt}')
