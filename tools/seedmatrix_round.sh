#!/bin/bash
# usage: tools/seedmatrix_round.sh r5 [Cxx ...]  — run every seed of one round (or of the named properties) against its property's quick check
tag="$1"; shift
cd /verif
props="$*"
for d in seeded/*-${tag}m*/; do
  sid=$(basename $d); prop=${sid%%-*}
  if [ -n "$props" ] && ! echo " $props " | grep -q " $prop "; then continue; fi
  if grep -q '"obsolete"' $d/meta.json; then echo "$sid skipped (obsolete)"; continue; fi
  tools/runseed.sh $sid $prop quick
done
