CHECKS = {
    'C18': ('model_checking',
            'stateless exhaustive exploration of the real parproc/executor_pmap/taskproc over a deterministic executor: every completion/yield order for payload lists of length 0..4 (quick) / 0..5 fully and 6 with <=2 deviations (thorough), workers 1..3, every subset of payloads raising captured exceptions; each schedule compared with the sequential mode as a multiset',
            'trusted: the executor model (only the max_workers earliest unfinished submissions may complete; as_completed snapshots its argument) — bound to reality by one real ThreadPool run of the same bodies; stop event never set',
            'stateless model checking: exhaustive DFS of scheduler choice points (deviation-bounded for the largest configuration)'),
    'C01': ('model_checking',
            'reference-model conformance by bounded exhaustive enumeration: every expression tree <= 3 nodes (quick) / <= 4 nodes (thorough) over the core alphabet, compiled from text, x every input over {a,b,space} up to length 4/5; accept/reject, end offset and AST compared with a purely functional evaluator of the documented semantics',
            'trusted: the reference evaluator (mc/refsem.py, DESIGN appendix A); constructs the documentation does not decide are kept out of the language and listed in the evidence',
            'explicit enumeration of programs x inputs against a reference model, every model trace replayed on the implementation'),
}
CHECKS['C05'] = ('model_checking',
    'reference-model conformance by bounded exhaustive enumeration: token-sequence scope bodies placed in 11 cut-scope contexts with 1..2 cuts at every position x all inputs over a 2-token alphabet up to length 6/7, against the evaluator encoding the documented cut equivalences, plus a cut-removal differential on inputs the cut does not prune',
    'trusted: the reference evaluator; cuts in bare groups, lookaheads and skip-to are outside the language (documentation and code disagree on a bare group)',
    'explicit enumeration of programs x inputs against a reference model, every model trace replayed on the implementation')
CHECKS['C04'] = ('model_checking',
    'A: exhaustive re-parse of three enumerated corpora under 9 alternative configurations (memo off, capacity 1 entry per line, no pruning at cuts, trace, colour, parseinfo, combinations); B: deviation-bounded stateless exploration of memo-eviction faults injected at BoundedDict.get (<=1 quick / <=2 thorough evictions per parse); C: explicit-state BFS of BoundedDict against a list model',
    'trusted: the eviction seam (a subclass of BoundedDict installed in tatsu.contexts.core from the harness); outcome = (status, AST modulo parseinfo, error class)',
    'deviation-bounded fault exploration + exhaustive configuration lattice + explicit-state BFS against a model')
CHECKS['C16'] = ('model_checking',
    'explicit enumeration of complete rule-graph families (all 2-rule graphs over {calls, t, [t], {t}, [call]} with 1-2 item sequences; 3-rule families; 3-item sequences with call bases) built from the real model classes, each checked against an independent nullable/left-call/cycle analysis (GrammarError iff left cycle, flags of non-cyclic rules) and parsed from every rule on a fixed input battery under a recursion ceiling and watchdog',
    'trusted: the independent analysis in mc/checks/c16.py; graphs with a call to a nullable rule in a left prefix are outside the property and skipped (counted)',
    'exhaustive enumeration of a finite program family against an independent reference analysis')
CHECKS['C02'] = ('model_checking',
    'differential conformance by bounded exhaustive enumeration: every expression tree of the C01 alphabet (<=3 nodes quick, extended 4-node families thorough) and 22 feature grammars (directives, keywords, params, Python-keyword names, upper-case rules, literals, left recursion, based/include/override rules, constants, meta, skip-to, eol, joins) x all inputs up to a length bound x 5 parse-time settings x {no semantics, tagging, identity}; generated source must compile, load and agree with model.parse on accept/reject and AST',
    'trusted: the in-memory model as reference (itself checked by C01); grammars the code generator refuses by design (repetition of a nullable body) are counted and skipped',
    'exhaustive enumeration of programs x inputs x configurations, differential between two implementations')
CHECKS['C03'] = ('model_checking',
    'reference-model conformance by bounded exhaustive enumeration: 18 left-recursion templates x every assignment of rule names to the cycle rules x entry through every cycle rule x all token strings up to length 5 (quick) / 7 (thorough), anchored and prefix parses; termination and model==generated for all, equality with the reference seed-growing evaluator and the left-fold closed form for single-head cycles, rename-invariance of accept/reject for mutual cycles',
    'trusted: the reference evaluator (dynamic-head seed growing); watchdog 10 s + interpreter recursion limit stand for "terminates"',
    'explicit enumeration of programs x inputs against a reference model, every model trace replayed on the implementation')
CHECKS['C19'] = ('model_checking',
    'codec: exhaustive enumeration of all strings up to length 4/5 over the 12 characters the encoding itself uses, in 5 payload positions, through pack/unpack and the run-length layer; queue: stateless exploration of the real PacketzQueue on real files — every interleaving of sends and receives by 1-2 readers with the file cut at every byte offset of the last record, full choice tree for small configurations and deviation-bounded for larger, invariant checked after every receive',
    'trusted: prefix-of-file model of a concurrent reader; ids distinct (clock seam); exceptions from a truncated read tolerated when nothing is lost or repeated',
    'stateless model checking of send/receive/truncation schedules + exhaustive input enumeration for the codec')
CHECKS['C20'] = ('model_checking',
    'exhaustive enumeration of complete sub-spaces: all 16384 styles (8x8 colours x 256 modifier subsets) x texts x specs; all texts up to length 3/4 over an 8-character class alphabet x 8 format specs x 7 styles; every route (str, format, f-string, .fmt, call, apply, len, repr round trip) with colour on and off; all 54 colour-policy combinations; explicit-state BFS over the chainable modifier methods (same state by different orders must render equally)',
    'trusted: the SGR-stripping regex used as oracle; unicode represented by class representatives',
    'exhaustive enumeration of bounded input/configuration spaces + explicit-state BFS with differential oracle')
CHECKS['C17'] = ('exploration',
    'bounded exhaustive enumeration: every builtin name x 6 argument tuples x 17 syntactic routes through is_eval_safe/safe_eval and through constants and alerts in real parses, executed under an interpreter audit hook with impure builtins replaced by recording stubs (a leak is observed, never executed); a depth-2 BFS of the non-dunder attribute graph from every context value; every history of length 2-3 over a pool of constant grammars in pristine forked children (names of one parse invisible to the next)',
    'trusted: the explicit list of impure builtins and forbidden audit events; routes are a finite menu of syntactic forms',
    'exhaustive enumeration of a finite expression family under fault-observing instrumentation + exhaustive short histories')
CHECKS['C09'] = ('model_checking',
    '(a) exhaustive layout enumeration: 7 grammars with comment directives x every lexeme sequence up to length 3 x every assignment of 6 (quick) / 11 (thorough) whitespace-and-comment runs to every gap, against the reference evaluator and (token-only grammars) AST invariance; (b) full product tokens x case variants x following characters x nameguard x namechars x ignorecase x {directive, setting} against the reference token matcher; (c) the complete 27-point layering lattice {absent,v1,v2}^3 (compile, directive, parse time) for 7 settings, differential against the value given alone at parse time',
    'trusted: the reference evaluator\'s skip() and token matcher; digit-initial tokens are not treated as names',
    'exhaustive enumeration of inputs x configurations against a reference model + complete configuration lattice')
CHECKS['C11'] = ('model_checking',
    'reference-model conformance by bounded exhaustive enumeration: 8 grammar shapes around an @name rule x 5 keyword sets x ignorecase {off, directive, setting} x every word sequence up to length 3/4 over keywords, keyword prefixes/suffixes and case variants; model vs reference evaluator, model vs generated parser, and model-free oracles (nothing the @name rule returns is a keyword; removing the decorator changes nothing on keyword-free inputs)',
    'trusted: the reference evaluator\'s keyword rule; @name bodies are single-string patterns',
    'explicit enumeration of programs x inputs x configurations against a reference model, every model trace replayed on the implementation')
CHECKS['C06'] = ('model_checking',
    'reference-model conformance by bounded exhaustive enumeration: 8 hand-written grammars (retry after backtracking, @nomemo, parameters, named, lookahead+closure, alias, Python-keyword rule names, left recursion) x all inputs up to length 4/5 x the complete semantics menu (none, identity, _default only, tagging with call log, FailedSemantics on every (rule, value) predicate, 10 exception types raised from each rule, declared parameters) on model and generated parser; plus every C01 expression that calls helper rules x {none, identity, tagging}; the reference evaluator runs the actions as call-backs without memoisation and yields the expected value and call multiset',
    'trusted: the reference evaluator; the implementation may call an action fewer times than the memo-less reference but at least once per distinct successful (rule, position), and exactly as often for @nomemo rules',
    'explicit enumeration of programs x inputs x semantics objects against a reference model, every model trace replayed on the implementation')
CHECKS['C08'] = ('exploration',
    'bounded exhaustive enumeration: 19 grammars (core language, every @meta, $->, skip-to, named, left recursion, lookaheads, upper-case rules, whitespace variants incl. an empty-matching pattern, constants/alerts, joins) x ALL strings of length <= 3/4 over a 12-character hostile alphabet plus targeted numeric/boolean/unicode inputs x {str, Buffer} x parseinfo on/off; and the complete single-edit neighbourhood (deletions, 31 metacharacter insertions per position, transpositions) of 8 seed grammars as compile input; every outcome must be a value or a TatSu exception with a consistent, renderable location, under a watchdog',
    'trusted: watchdog (3 s parse / 20 s compile) and the interpreter recursion limit as observers of non-termination; the independent line splitter for locations',
    'exhaustive enumeration of bounded input spaces and complete edit neighbourhoods (fault enumeration on inputs)')
CHECKS['C10'] = ('model_checking',
    'histories: explicit enumeration of every API call sequence of length <= 2 over 19 calls (compile/parse/tatsu.parse/codegen/generated parser/persistent model with asmodel, semantics, name, ignorecase, start, failing inputs, a second grammar reusing a class name) and length 3 over 9 (quick) / all 19 (thorough) calls, each history in a pristine forked child and each call compared with the same call run first; model and config snapshots before/after parses; schedules: stateless exploration under a baton thread scheduler (sys.settrace line events in the functions that touch shared state) of 2-3 threads parsing on one shared never-optimised model, all interleavings up to 2 preemptions, each compared with the sequential result',
    'trusted: forked child of an interpreter that only imported tatsu = fresh process; the whitelist of functions with shared state; preemption bound 2',
    'explicit-state exploration of API histories + stateless preemption-bounded schedule exploration on the real code')
CHECKS['C07'] = ('model_checking',
    'differential conformance by bounded exhaustive enumeration: 9 type-annotated grammar templates (single type, Derived::Base chains up to 3 deep, builtin types, rules without names, nodes in closures/optionals/joins/lists, overrides, untyped rules in between) x all inputs up to length 5/7; the model-building parse is compared with the same parse under a semantics that tags typed rules (isomorphism of classes, bases, attributes, values), children/parent closure on every node, three walkers must visit every node exactly once and dispatch on declared bases, node parseinfo (rule, span, line, text), and the classes of the generated model module must give an isomorphic tree',
    'trusted: the tagging reference semantics (same action hook the model builder uses); class names unique per template (registry histories are C10)',
    'exhaustive enumeration of programs x inputs, differential between implementations with structural invariants on every state')
CHECKS['C13'] = ('exploration',
    'bounded exhaustive enumeration of models from three sources: every C01 expression tree (<=3 nodes) with helper rules, the C05 cut corpus, 39 feature grammars covering every directive/keyword/param/decorator/based/included/typed/$->/@meta/alert/constant/join/lookahead form, tokens and patterns built from ALL strings up to length 2/3 over the quoting-sensitive characters, the feature models reloaded from JSON, and ANTLR translations; for each: pretty -> compile, facts (rules, params, decorators, bases, directives, keywords) preserved, parses equal on all short inputs, second pretty identical, railroads complete',
    'trusted: differential between the original and the recompiled model; railroad width consistency is the library\'s own assertion',
    'exhaustive enumeration of a bounded program family with a round-trip (translation-validation style) oracle')
CHECKS['C14'] = ('exploration',
    'bounded exhaustive enumeration: 39 feature grammars x {JSON, pickle, Python model source}, every C01 expression tree (<=2/3 nodes) x {JSON, pickle}, and a stress list of strings (style-escape look-alikes, format specs, class markers, quotes, backslashes, literals; thorough: all strings up to length 2 over the quoting alphabet) placed as token / one-rule token / keyword / rule parameter / constant x all routes; reloaded model compared on facts (rules, params, flags, directives, keywords) and on parses of short inputs; asjson+json.dumps of every parse result (AST and object model) and of hand-built cyclic, shared and deep structures',
    'trusted: equivalence judged on facts + listed inputs',
    'exhaustive enumeration of a bounded program family with a round-trip oracle')
CHECKS['C15'] = ('model_checking',
    'four-way differential over an enumerated corpus: the shipped generated bootstrap parser, the shipped GRAMMAR_MODEL, the model compiled now from _tatsu.ebnf and the parser regenerated now from that model read ~80 grammar texts covering every spelling of every production (rule coverage of _tatsu.ebnf measured; a reachable rule never hit fails the run) plus the complete single-edit neighbourhood (thousands of texts) of the short seeds; accept/reject and asjson of the resulting Grammar must agree',
    'trusted: asjson as the model observable; unreachable rules of the shipped grammar are listed with their reason in the evidence',
    'exhaustive enumeration of an edit neighbourhood, differential among four implementations')

# parts added in rounds 2-3 of strengthening (DESIGN.md sections 9.1-9.2); appended to the level texts above
_ADDED = {
    'C02': '; feature grammars now 36 (token-rule names, cuts inside groups, left/right joins alone and under names, skip groups, verbose multi-line patterns, shared names) with parse information compared on both sides',
    'C04': '; left-recursive grammars with cuts on all balanced parenthesised token strings',
    'C06': '; kinds of semantics objects (unhashable, all-equal, falsy, __slots__) x two-parse histories; @name rule with keywords under every semantics',
    'C07': '; generated model module classes; walker-class histories (subclass defined after its parent class has walked)',
    'C08': '; (c) every short body in each lexeme position of the grammar language (token escapes, regex lexemes as patterns and as directives, constant/alert bodies, an unknown rule in every position a rule can be named), compiled and parsed; constants interpolating input text',
    'C09': '; (d) every (parse with a setting, then plain parse) pair on one reused generated parser object',
    'C10': '; equal-valued semantics objects, per-call settings of failing parses on a persistent generated parser, model-building options (basetype) in the call alphabet',
    'C12': '; (c) parse information of every model node over the type-annotated templates (rule of the class; the span re-parses from that rule to the same node)',
    'C13': '; features for printed spellings (based rules with parameters, @@whitespace :: None, keyword lists before parameterised rules, multi-line constants, bodies printed over several lines, ANTLR translations)',
    'C14': '; every object graph of <= 3 (4) containers of kind dict/list/Node/AST with <= 2 slots against the documented JSON image; every node of a reloaded model as an entry point',
    'C15': '; deletions and swaps of every spelling seed; every sequence of <= 2 (3) of 46 element spellings written without blanks; literal-prefix words',
    'C16': '; family 4 (lookaheads, void, groups, closures of calls, named calls); 990 (5 k) one-rule grammars with recursion hidden behind a nullable rule call and cuts in earlier alternatives (run-time clause)',
    'C17': '; grid of 12 (thorough: all) forbidden attribute names x 38 syntactic positions of an attribute node incl. Store context; generator/frame/code introspection routes',
    'C18': '; two-run histories: a run interrupted by KeyboardInterrupt at each position followed by each of five ordinary runs under all their schedules',
    'C19': '; complete tree of 3 sends x two receive() iterations alive at once on one reader, stepped packet by packet',
    'C20': '; texts with line boundaries of every kind (LF, CR, CRLF, U+2028, VT, NEL); error rendering under every colour policy',
}
# parts added in round 5 (DESIGN.md section 9.2c)
_ADDED5 = {
    'C01': '; text forms against their documented expansions (optionals around left/right/positive joins, chains of based rules, includes of based rules, constants that fail); one name bound three or more times in scopes that are given up',
    'C02': '; code-generator cases (names of options that are not sequences, 54 repetitions in one rule, nested choices, rule parameters of every literal kind, control and line-boundary characters in patterns and directives, colliding rule names, list-valued actions)',
    'C03': '; nullable constructs containing a call before the recursive call; recursion through rule includes and based rules',
    'C04': '; an error-class tie at the furthest position (recorded finding)',
    'C05': '; optional around a closure/optional/join that contains a cut; joins whose separator can match nothing',
    'C06': '; action values equal across types (True/1/1.0) compared by repr; one generated parser object with another semantics argument each parse',
    'C07': '; 25 element names that are attributes or methods of Node',
    'C08': '; (d) depth battery: 11 bracketing forms of grammar text nested 1-48 deep, 4 recursive grammars on input nested 1-500 deep, 5 iterative grammars on 1 500 elements; @name rules with list/dict/number values',
    'C09': '; skip-to over comments whose text matches the target',
    'C11': '; the @name rule written as a based rule, a rule include, a rule call',
    'C13': '; stress lexemes after a token and after a rule call, patterns written with escaped slashes; ANTLR token rules used before their definition',
    'C14': '; the <Name>Parser class of the emitted model module',
    'C15': '; 1 260 (repetition/group, postfix, binding prefix, element) quadruples written without blanks; keyword lists followed by every rule definition form',
    'C16': '; 11 grammars with rule includes and based rules labelled by hand (detection, flags, run-time clause)',
    'C17': '; every forbidden attribute and impure builtin under its NFKC-equivalent spellings (full-width low line and letters)',
    'C18': '; the thread-pool route (all tasks submitted at once) for <= 3 (4) payloads; TypeError as a fifth captured form; absolute oracle (the function runs once per payload and the result carries its outcome)',
    'C20': '; error reports for failures on lines 1-15 and 98-105',
}
# parts added in round 6 (DESIGN.md section 9.2d)
_ADDED6 = {
    'C01': '; names that are attributes of dict, as plain and list names',
    'C02': '; one generated parser object for two parses (6 per-call settings x 9 texts, the first possibly failing), second call against the model; names over groups with composite tails',
    'C04': '; left recursion after a plain alternative that re-enters the rule',
    'C05': '; cuts inside included rules; a cut after an abandoned option that cut further on',
    'C06': '; how action arguments are bound (actions named like builtins, defaults, keyword-only parameters); TypeErrors whose text mentions arguments',
    'C07': '; one walker object used again after a walk that did not finish',
    'C08': '; repetition counts too large to compile, inputs beyond the digit limit, comment patterns that take no input (str and Buffer), rounds that take no input after a cut',
    'C14': '; parameter names beginning with underscores',
    'C15': '; one reader object (shipped and regenerated parser) for every triple of 5 texts, each with new semantics',
    'C16': '; every left-call graph of 3 (4) rules; unbounded recursion attributed per cyclic component',
}
for _k, _v in _ADDED6.items():
    _ADDED5[_k] = _ADDED5.get(_k, '') + _v
for _k, _v in _ADDED5.items():
    _ADDED[_k] = _ADDED.get(_k, '') + _v
for _k, _v in _ADDED.items():
    if _k in CHECKS:
        _c = CHECKS[_k]
        CHECKS[_k] = (_c[0], _c[1] + _v, _c[2], _c[3])
