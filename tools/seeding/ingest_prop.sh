#!/bin/bash
# usage: tools/seeding/ingest_prop.sh <root> <tag> <Cxx>  — confirm both seeds of one property, then run the property's quick check on each
root="$1"; tag="$2"; prop="$3"
mkdir -p /dev/shm/r5 /dev/shm/r6
{
for m in m1 m2; do
  [ -f "$root/$prop/_seed/$m/patch.diff" ] || { echo "$prop $m: no patch"; continue; }
  SEED_ROOT="$root" SEED_TAG="$tag" /venv/bin/python /verif/tools/ingest_seed.py "$prop" "$m" 2>&1 | tail -3
  /verif/tools/runseed.sh "$prop-$tag$m" "$prop" quick
done
} > "/dev/shm/$tag/$prop.log" 2>&1
