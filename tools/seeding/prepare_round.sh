#!/bin/bash
# usage: tools/seeding/prepare_round.sh <root-dir>   e.g. /tmp/wt3
# One scratch worktree of /repo HEAD per property under <root-dir>/Cxx, each with PROPERTY.json (the property record,
# nothing else from /verif) and PROMPT.txt (tools/seeding/PROMPT.template.txt).  A fresh sub-agent is then started per
# directory with: "Read <root>/Cxx/PROMPT.txt and follow it exactly; work only inside <root>/Cxx".
# Afterwards: SEED_ROOT=<root> SEED_TAG=r3 tools/ingest_seed.py Cxx m1|m2 ; git -C /repo worktree remove --force <root>/Cxx
root="$1"; mkdir -p "$root"
for i in 01 02 03 04 05 06 07 08 09 10 11 12 13 14 15 16 17 18 19 20; do
  git -C /repo worktree add -q --detach "$root/C$i" HEAD
  sed "s#@ROOT@#$root#g; s/@ID@/C$i/g" /verif/tools/seeding/PROMPT.template.txt > "$root/C$i/PROMPT.txt"
  [ -n "$EXTRA" ] && cat "$EXTRA" >> "$root/C$i/PROMPT.txt"
done
/venv/bin/python - "$root" <<'PY'
import json, sys
for l in open('/verif/properties.jsonl'):
    p = json.loads(l)
    open(f"{sys.argv[1]}/{p['id']}/PROPERTY.json", 'w').write(json.dumps(p, indent=1))
PY
