"""E1 — grammar IR, renderer to TatSu grammar text, bounded enumeration.

IR nodes are tuples (hashable, printable):
  ('tok', s) ('pat', regex) ('seq', e...) ('alt', e...) ('grp', e) ('opt', e)
  ('clo', e) ('pclo', e) ('join', sep, e) ('pjoin', sep, e) ('gather', sep, e)
  ('pgather', sep, e) ('look', e) ('nlook', e) ('call', name) ('named', n, e)
  ('nlist', n, e) ('ovr', e) ('ovrl', e) ('const', text) ('void',) ('fail',)
  ('eof',) ('dot',) ('skipto', e) ('eclo',) ('cut',) ('inc', name)
  ('meta', 'int'|'uint'|'float'|'bool'|'name') ('eol',)
A grammar is Grammar(rules=[Rule(name, exp, decorators, params, kwparams, base)],
directives={...}, keywords=[...]).
"""
from __future__ import annotations

import itertools
from dataclasses import dataclass, field
from typing import Any, Iterator

LEAVES0 = ('void', 'fail', 'eof', 'dot', 'eclo', 'cut', 'eol')
UNARY = ('grp', 'opt', 'clo', 'pclo', 'look', 'nlook', 'ovr', 'ovrl', 'skipto')
SEPPED = ('join', 'pjoin', 'gather', 'pgather')


@dataclass
class Rule:
    name: str
    exp: tuple
    decorators: tuple = ()
    params: tuple = ()
    kwparams: tuple = ()   # tuple of (k, v)
    base: str | None = None
    types: tuple = ()      # type annotation chain for ::A::B


@dataclass
class Grammar:
    rules: list
    directives: dict = field(default_factory=dict)
    keywords: tuple = ()
    name: str | None = None

    def rule(self, name: str) -> Rule:
        for r in self.rules:
            if r.name == name:
                return r
        raise KeyError(name)


# ---------------------------------------------------------------- rendering

def q(s: str) -> str:
    """Render a token literal."""
    if "'" not in s and '\\' not in s and '\n' not in s:
        return f"'{s}'"
    return repr(s)


def render_pat(p: str) -> str:
    if '/' in p:
        return '?"' + p.replace('"', '\\"') + '"'
    return f'/{p}/'


def needs_paren(e: tuple, ctx: str) -> bool:
    k = e[0]
    if ctx == 'seqitem':
        return k in ('alt', 'seq')
    if ctx == 'unary':  # operand of & ! -> name: @:
        return k in ('alt', 'seq', 'named', 'nlist', 'ovr', 'ovrl')
    if ctx == 'sep':
        return k not in ('tok', 'pat', 'call')
    return False


def render(e: tuple, ctx: str = 'top') -> str:
    k = e[0]
    if needs_paren(e, ctx):
        return '(' + render(e, 'top') + ')'
    if k == 'tok':
        return q(e[1])
    if k == 'pat':
        return render_pat(e[1])
    if k == 'seq':
        return ' '.join(render(x, 'seqitem') for x in e[1:])
    if k == 'alt':
        return ' | '.join(render(x, 'altitem') for x in e[1:])
    if k == 'grp':
        return '(' + render(e[1]) + ')'
    if k == 'opt':
        return '[' + render(e[1]) + ']'
    if k == 'clo':
        return '{' + render(e[1]) + '}'
    if k == 'pclo':
        return '{' + render(e[1]) + '}+'
    if k in SEPPED:
        op = '%' if k in ('join', 'pjoin') else '.'
        plus = '+' if k.startswith('p') else ''
        return render(e[1], 'sep') + op + '{' + render(e[2]) + '}' + plus
    if k == 'look':
        return '&' + render(e[1], 'unary')
    if k == 'nlook':
        return '!' + render(e[1], 'unary')
    if k == 'skipto':
        return '->' + render(e[1], 'unary')
    if k == 'call':
        return e[1]
    if k == 'inc':
        return '>' + e[1]
    if k == 'named':
        return f'{e[1]}:' + render(e[2], 'unary')
    if k == 'nlist':
        return f'{e[1]}+:' + render(e[2], 'unary')
    if k == 'ovr':
        return '@:' + render(e[1], 'unary')
    if k == 'ovrl':
        return '@+:' + render(e[1], 'unary')
    if k == 'const':
        return '`' + e[1] + '`'
    if k == 'alert':
        return '^' * e[1] + '`' + e[2] + '`'
    if k == 'void':
        return '()'
    if k == 'fail':
        return '!()'
    if k == 'eof':
        return '$'
    if k == 'eol':
        return '$->'
    if k == 'dot':
        return '/./'
    if k == 'eclo':
        return '{}'
    if k == 'cut':
        return '~'
    if k == 'meta':
        return '@' + e[1]
    raise ValueError(e)


def render_param(p: Any) -> str:
    if isinstance(p, str) and p.isidentifier():
        return p
    return repr(p)


def render_rule(r: Rule) -> str:
    out = ''
    for d in r.decorators:
        out += f'@{d}\n'
    out += r.name
    for t in r.types:
        out += f'::{t}'
    if r.params or r.kwparams:
        parts = [render_param(p) for p in r.params] + [f'{k}={render_param(v)}' for k, v in r.kwparams]
        out += '[' + ', '.join(parts) + ']'
    if r.base:
        out += f' < {r.base}'
    out += ': ' + render(r.exp) + ' ;'
    return out


def render_directive(name: str, value: Any) -> str:
    if name in ('whitespace', 'comments', 'eol_comments') and isinstance(value, str):
        return f'@@{name} :: {render_pat(value)}'
    if name == 'namechars':
        return f'@@{name} :: {value!r}'
    return f'@@{name} :: {value}'


def render_grammar(g: Grammar, tag: str = '') -> str:
    lines = []
    if g.name:
        lines.append(f'@@grammar :: {g.name}')
    for k, v in g.directives.items():
        lines.append(render_directive(k, v))
    for kw in g.keywords:
        lines.append('@@keyword :: ' + (kw if kw.isidentifier() else repr(kw)))
    if lines:
        lines.append('')
    for r in g.rules:
        lines.append(render_rule(r))
        lines.append('')
    if tag:
        lines.append(f'# {tag}')
    return '\n'.join(lines) + '\n'


# ---------------------------------------------------------------- utilities

def size(e: tuple) -> int:
    k = e[0]
    if k in ('tok', 'pat', 'call', 'const', 'inc', 'meta', 'alert') or k in LEAVES0:
        return 1
    if k in ('named', 'nlist'):
        return 1 + size(e[2])
    if k in SEPPED:
        return 1 + size(e[1]) + size(e[2])
    return 1 + sum(size(x) for x in e[1:])


def subexps(e: tuple) -> Iterator[tuple]:
    yield e
    k = e[0]
    if k in ('tok', 'pat', 'call', 'const', 'inc', 'meta', 'alert') or k in LEAVES0:
        return
    kids = e[2:] if k in ('named', 'nlist') else e[1:]
    for x in kids:
        yield from subexps(x)


def kinds(e: tuple) -> set:
    return {x[0] for x in subexps(e)}


def tokens_of(g: Grammar) -> list[str]:
    out = []
    for r in g.rules:
        for x in subexps(r.exp):
            if x[0] == 'tok' and x[1] not in out:
                out.append(x[1])
    return out


def inputs(alphabet, maxlen: int) -> Iterator[str]:
    for n in range(maxlen + 1):
        for t in itertools.product(alphabet, repeat=n):
            yield ''.join(t)


# ---------------------------------------------------------------- enumeration

def enum_exps(n: int, leaves: tuple, unary: tuple, binary: tuple, named: tuple = (),
              memo: dict | None = None) -> list[tuple]:
    """All expression trees with exactly n nodes, canonical order.
    leaves: leaf IR nodes; unary: unary kinds; binary: subset of
    ('seq','alt') + SEPPED; named: names usable by named/nlist.
    Canonical forms: no seq directly inside seq, no alt directly inside alt
    (n-ary nodes are built right-nested then flattened, which enumerates each
    n-ary shape once)."""
    memo = memo if memo is not None else {}
    key = n
    if key in memo:
        return memo[key]
    out: list[tuple] = []
    if n == 1:
        out = list(leaves)
    elif n >= 2:
        subs = enum_exps(n - 1, leaves, unary, binary, named, memo)
        for u in unary:
            for s in subs:
                if u == 'grp' and s[0] in ('grp',):
                    continue
                if u in ('look', 'nlook') and s[0] in ('look', 'nlook'):
                    continue
                out.append((u, s))
        for nm in named:
            for s in subs:
                if s[0] in ('named', 'nlist', 'ovr', 'ovrl', 'cut'):
                    continue
                out.append(('named', nm, s))
                out.append(('nlist', nm, s))
        if n >= 3:
            for b in binary:
                for ln in range(1, n - 1):
                    rn = n - 1 - ln
                    for l in enum_exps(ln, leaves, unary, binary, named, memo):
                        for r in enum_exps(rn, leaves, unary, binary, named, memo):
                            if b == 'seq':
                                if l[0] == 'seq':
                                    continue  # canonical: left operand is not a seq
                                items = (l,) + (r[1:] if r[0] == 'seq' else (r,))
                                out.append(('seq',) + items)
                            elif b == 'alt':
                                if l[0] == 'alt':
                                    continue
                                items = (l,) + (r[1:] if r[0] == 'alt' else (r,))
                                out.append(('alt',) + items)
                            else:
                                out.append((b, l, r))
    memo[key] = out
    return out


def enum_upto(n: int, leaves, unary, binary, named=()) -> list[tuple]:
    memo: dict = {}
    out = []
    for k in range(1, n + 1):
        out.extend(enum_exps(k, tuple(leaves), tuple(unary), tuple(binary), tuple(named), memo))
    return out
