"""E3 — stateless exploration over recorded choice points.

A harness is a function `body(chooser) -> observation`.  Wherever the
environment answers (which future completes, whether a memo entry was evicted,
how many bytes of a file are visible, which thread runs next) the harness calls
`chooser.pick(n, tag)` and receives an index in range(n); 0 is the default
answer.  `explore` re-runs the harness from scratch for every choice prefix,
taking the default afterwards, and extends only prefixes whose number of
non-default choices is within the deviation bound (None = all choices: full
DFS of the choice tree).  A replayed prefix that meets a different arity than
recorded is a hard error (divergence = nondeterminism we do not own).
"""
from __future__ import annotations

from typing import Any, Callable, Iterator


class Divergence(Exception):
    pass


class Chooser:
    __slots__ = ('prefix', 'trace', 'arity', 'tags')

    def __init__(self, prefix: tuple[int, ...] = ()):
        self.prefix = prefix
        self.trace: list[int] = []
        self.arity: list[int] = []
        self.tags: list[Any] = []

    def pick(self, n: int, tag: Any = None) -> int:
        assert n >= 1
        i = len(self.trace)
        c = self.prefix[i] if i < len(self.prefix) else 0
        if c >= n:
            raise Divergence(f'choice {i}: prefix wants {c} but only {n} options (tag={tag})')
        self.trace.append(c)
        self.arity.append(n)
        self.tags.append(tag)
        return c

    @property
    def deviations(self) -> int:
        return sum(1 for c in self.trace if c)


def split_prefixes(body: Callable[[Chooser], Any], depth: int, bound: int | None = None) -> list[tuple[int, ...]]:
    """All choice prefixes of length <= depth that partition the execution tree
    (used to shard one exploration over worker processes)."""
    level: list[tuple[int, ...]] = [()]
    for _ in range(depth):
        nxt: list[tuple[int, ...]] = []
        for pre in level:
            ch = Chooser(pre)
            body(ch)
            if len(ch.trace) <= len(pre):
                nxt.append(pre)      # complete execution: a leaf
                continue
            dev = sum(1 for c in pre if c)
            for i in range(ch.arity[len(pre)]):
                if bound is not None and dev + (1 if i else 0) > bound:
                    continue
                nxt.append(pre + (i,))
        level = nxt
    return level


def split_first_deviation(body: Callable[[Chooser], Any]) -> list[tuple[int, ...]]:
    """Roots that partition a deviation-bounded exploration evenly: the all-default execution (root ``()`` explored with
    bound 0 by the caller: see `explore_root`) and, for every position k of it and every non-default choice i there,
    the subtree of executions whose *first* deviation is (k, i).  Prefix splitting would leave almost everything under
    the all-default prefix."""
    ch = Chooser(())
    body(ch)
    roots: list[tuple[int, ...]] = [()]
    for k in range(len(ch.trace)):
        for i in range(1, ch.arity[k]):
            roots.append((0,) * k + (i,))
    return roots


def explore_root(body: Callable[[Chooser], Any], bound: int | None, root: tuple[int, ...]):
    """`explore` for a root produced by `split_first_deviation`: the empty root stands for the default execution alone."""
    if root == ():
        yield from explore(body, bound=0, root=())
    else:
        yield from explore(body, bound=bound, root=root)


def explore(body: Callable[[Chooser], Any], bound: int | None = None,
            max_runs: int | None = None, root: tuple[int, ...] = ()) -> Iterator[tuple[tuple[int, ...], Chooser, Any]]:
    """Yield (choices, chooser, observation) for every execution within the
    deviation bound whose choices start with `root`.  Each execution is
    generated exactly once."""
    stack: list[tuple[int, ...]] = [tuple(root)]
    runs = 0
    while stack:
        prefix = stack.pop()
        ch = Chooser(prefix)
        obs = body(ch)
        if len(ch.trace) < len(prefix):
            raise Divergence(f'execution ended after {len(ch.trace)} choices, prefix has {len(prefix)}')
        runs += 1
        yield tuple(ch.trace), ch, obs
        if max_runs is not None and runs >= max_runs:
            return
        # children: deviate at a position after the prefix
        base_dev = sum(1 for c in prefix if c)
        for i in range(len(ch.trace) - 1, len(prefix) - 1, -1):
            if ch.arity[i] <= 1:
                continue
            if bound is not None and base_dev + 1 > bound:
                continue
            for alt in range(ch.arity[i] - 1, 0, -1):
                stack.append(tuple(ch.trace[:i]) + (alt,))


def check_deterministic(body: Callable[[Chooser], Any], prefix: tuple[int, ...] = ()) -> None:
    a = Chooser(prefix)
    oa = body(a)
    b = Chooser(prefix)
    ob = body(b)
    if a.trace != b.trace or a.arity != b.arity or oa != ob:
        raise Divergence(f'harness is not deterministic: {a.trace}/{oa!r} vs {b.trace}/{ob!r}')
