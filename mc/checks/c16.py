"""C16 — left recursion is detected exactly, and never causes unbounded recursion.

All rule graphs of a bounded family are built directly from tatsu.peg classes
(a text-compiled control subset asserts both routes give the same flags) and
compared with an independent analysis (nullable fixpoint, left-call graph,
cycle search); each graph is then parsed from every rule on a fixed battery of
inputs under a recursion ceiling and a watchdog.
"""
from __future__ import annotations

import itertools
import signal

from .. import impl

PROPERTY = 'C16'
LEVEL = 'model_checking'

ITEMS_FULL = ('a', 'b', 'c', 't', '[t]', '{t}', '[a]', '[b]', '[c]')
BATTERY = ['', 't', 't t', 't t t', 't t t t t', 'x', 't x', 't t x t']


def bodies(rule_names, items, maxseq=2, base_variants=(False, True)):
    its = [i for i in items if describe(i)[1] in rule_names + ('t', 'x', None)]
    seqs = []
    for n in range(1, maxseq + 1):
        seqs += [list(s) for s in itertools.product(its, repeat=n)]
    out = []
    for s in seqs:
        for base in base_variants:
            out.append([s, ['t']] if base else [s])
    return out


# ------------------------------------------------------------ independent analysis

ITEMS_WIDE = ('a', 'b', 't', "&t", "!x", '()', '&a', '!b', '(a)', '{b}', '{a}+', 'n:b', '[a]')


def describe(it):
    """item spelling -> (wrapper kind, inner: rule name | 't' | 'x' | None)"""
    if it == '()':
        return ('void', None)
    if it.endswith('}+'):
        return ('pclo', it[1:-2])
    if it[0] == '[':
        return ('opt', it[1:-1])
    if it[0] == '{':
        return ('clo', it[1:-1])
    if it[0] == '(':
        return ('group', it[1:-1])
    if it[0] == '&':
        return ('look', it[1:])
    if it[0] == '!':
        return ('nlook', it[1:])
    if it.startswith('n:'):
        return ('named', it[2:])
    return ('plain', it)


def item_callee(it, g):
    inner = describe(it)[1]
    return inner if inner in g else None


def item_nullable(it, nul):
    kind, inner = describe(it)
    if kind in ('void', 'opt', 'clo', 'look', 'nlook'):
        return True
    if inner in ('t', 'x'):
        return False
    return inner in nul


def analyse(g):
    """g: dict rule -> list of alternatives (lists of items).  Returns
    (nullable rules, left-call graph, rules on a left cycle, has nullable call in prefix)."""
    nul = set()
    changed = True
    while changed:
        changed = False
        for r, alts in g.items():
            if r not in nul and any(all(item_nullable(i, nul) for i in alt) for alt in alts):
                nul.add(r)
                changed = True
    graph = {r: set() for r in g}
    nullable_call_in_prefix = False
    for r, alts in g.items():
        for alt in alts:
            for it in alt:
                callee = item_callee(it, g)
                if callee:
                    graph[r].add(callee)
                    if callee in nul:
                        nullable_call_in_prefix = True
                if not item_nullable(it, nul):
                    break
    # rules on a cycle: r reaches r
    def reach(src):
        seen, todo = set(), list(graph[src])
        while todo:
            x = todo.pop()
            if x not in seen:
                seen.add(x)
                todo += graph[x]
        return seen
    on_cycle = {r for r in g if r in reach(r)}
    return nul, graph, on_cycle, nullable_call_in_prefix


# ------------------------------------------------------------ implementation side

def build(g, lr=True):
    from tatsu import peg

    def item(it):
        kind, inner = describe(it)
        if kind == 'void':
            return peg.Void()
        e = peg.Token(token=inner) if inner in ('t', 'x') else peg.Call(name=inner)
        if kind == 'plain':
            return e
        if kind == 'named':
            return peg.Named(name='n', exp=e)
        cls = {'opt': peg.Optional, 'clo': peg.Closure, 'pclo': peg.PositiveClosure, 'group': peg.Group, 'look': peg.Lookahead,
               'nlook': peg.NegativeLookahead}[kind]
        return cls(exp=e)

    rules = []
    for name, alts in g.items():
        opts = []
        for alt in alts:
            its = [item(i) for i in alt]
            e = its[0] if len(its) == 1 else peg.Sequence(sequence=its)
            opts.append(peg.Option(exp=e))
        exp = opts[0].exp if len(opts) == 1 else peg.Choice(options=opts)
        rules.append(peg.Rule(name=name, exp=exp))
    return peg.Grammar('G', rules, directives={} if lr else {'left_recursion': False})


def gtext(g, lr=True):
    def item(it):
        return it.replace('t', "'t'").replace('x', "'x'")  # rule names are a, b, c; tokens t, x
    head = '' if lr else '@@left_recursion :: False\n\n'
    return head + '\n\n'.join(f"{r}: " + ' | '.join(' '.join(item(i) for i in alt) for alt in alts) + ' ;' for r, alts in g.items()) + '\n'


class Watchdog(Exception):
    pass


def _alarm(_s, _f):
    raise Watchdog()


def check_graph(m, g, text_control=False):
    from tatsu.exceptions import FailedParse, GrammarError, ParseException

    nul, graph, on_cycle, excluded = analyse(g)
    if excluded:
        m.add('graphs_outside_language')
        return
    m.add('states')
    label = gtext(g)
    # (a) detection with left recursion off
    try:
        if text_control:
            import tatsu
            from .. import impl
            impl.compile_text(gtext(g, lr=False))
        else:
            build(g, lr=False)
        raised = False
    except GrammarError:
        raised = True
    except Exception as e:  # noqa
        m.violation(f'analysis-crash/{type(e).__name__}', grammar=label, error=str(e)[:200])
        return
    m.add('evaluations')
    if raised != bool(on_cycle):
        m.violation('detection/' + ('missed-cycle' if on_cycle else 'false-cycle'), grammar=label,
                    left_cycle_rules=sorted(on_cycle), grammar_error_raised=raised)
    if on_cycle:
        m.add('nontrivial')
    # (b) flags with left recursion on
    try:
        if text_control:
            from .. import impl
            model = impl.compile_text(gtext(g))
        else:
            model = build(g)
    except Exception as e:  # noqa
        m.violation(f'build-crash/{type(e).__name__}', grammar=label, error=str(e)[:200])
        return
    for r in model.rules:
        if r.name not in on_cycle and (r.is_lrec or not r.is_memo):
            m.violation('flags/non-cyclic-rule-not-memoized-or-lrec', grammar=label, rule=r.name, is_lrec=r.is_lrec, is_memo=r.is_memo)
    m.note('lrec_patterns', (len(on_cycle), sum(1 for r in model.rules if r.is_lrec)))
    # (c) battery
    for start in g:
        for t in BATTERY:
            m.add('evaluations')
            m.add('transitions')
            signal.setitimer(signal.ITIMER_REAL, 5.0)
            try:
                model.parse(t, start=start)
            except ParseException:
                pass
            except RecursionError:
                sig = classify_unbounded(g, graph, on_cycle)
                m.violation(sig, grammar=label, start=start, input=t, left_cycle_rules=sorted(on_cycle),
                            lrec=[r.name for r in model.rules if r.is_lrec])
            except Watchdog:
                m.violation('hang', grammar=label, start=start, input=t)
            except Exception as e:  # noqa
                m.violation(f'foreign-exception/{type(e).__name__}', grammar=label, start=start, input=t, error=str(e)[:200])
            finally:
                signal.setitimer(signal.ITIMER_REAL, 0)


def classify_unbounded(g, graph, on_cycle):
    """Signature for unbounded recursion: is there a cyclic component without a rule that lies on every one of its cycles?
    (If so, no single leader can guard it: the recorded finding.  Components are taken one by one: two components that each
    have such a rule are guarded, whatever they call in each other.)"""
    def reach(x, allowed):
        seen, todo = set(), [y for y in graph[x] if y in allowed]
        while todo:
            y = todo.pop()
            if y not in seen:
                seen.add(y)
                todo += [z for z in graph[y] if z in allowed]
        return seen

    def cyclic(sub):
        for s0 in sub:
            seen, todo = set(), list(sub[s0])
            while todo:
                x = todo.pop()
                if x == s0:
                    return True
                if x not in seen:
                    seen.add(x)
                    todo += sub.get(x, ())
        return False

    rest = set(on_cycle)
    leaderless = False
    while rest:
        r0 = next(iter(sorted(rest)))
        comp = {r0} | {y for y in reach(r0, on_cycle) if r0 in reach(y, on_cycle)}
        rest -= comp
        common = None
        for r in sorted(comp):
            sub = {x: {y for y in graph[x] if y != r and y in comp} for x in comp if x != r}
            if not cyclic(sub):
                common = r
                break
        if common is None:
            leaderless = True
    return 'unbounded-recursion/' + ('cycles-share-no-rule' if leaderless else 'component-with-common-rule')


def shard(m, items, text_control=False):
    signal.signal(signal.SIGALRM, _alarm)
    for g in items:
        check_graph(m, g, text_control)
        if m.counts.get('states', 0) % 97 == 5:
            m.sample(gtext(g))


def families(tier):
    fams = []
    # family 1: complete 2-rule family over the full item alphabet
    b2 = bodies(('a', 'b'), ITEMS_FULL)
    fams.append(('2 rules, full items', [{'a': x, 'b': y} for x in b2 for y in b2]))
    # family 2: 3 rules; quick: items {a,b,c,t} with a base alternative; thorough: full
    if tier == 'quick':
        b3 = bodies(('a', 'b', 'c'), ('a', 'b', 'c', 't'), base_variants=(True,))
    else:
        b3 = bodies(('a', 'b', 'c'), ('a', 'b', 'c', 't', '[t]'))
    fams.append(('3 rules', [{'a': x, 'b': y, 'c': z} for x in b3 for y in b3 for z in b3]))
    # family 3: 2 rules, sequences of 3 items, `seq | call` bases
    its = ('a', 'b', 't', '[t]')
    seq3 = [list(s) for s in itertools.product(its, repeat=3)]
    b = [[s, [base]] for s in seq3 for base in ('t', 'a', 'b')]
    if tier == 'quick':
        b = [x for x in b if x[0][2] == 't']   # the tail item cannot matter for left calls unless both before are nullable
    fams.append(('2 rules, 3-item sequences with call bases', [{'a': x, 'b': y} for x in b for y in b[::3]] if tier == 'quick' else [{'a': x, 'b': y} for x in b for y in b]))
    # family 4: 2 rules over the wider element alphabet (lookaheads, void, groups, closures of calls, named calls)
    bw = bodies(('a', 'b'), ITEMS_WIDE)
    bn = bodies(('a', 'b'), ('a', 'b', 't', '&t', '!a', '{a}+')) if tier == 'quick' else bw
    fams.append(('2 rules, wide items (lookaheads, void, group, closures of calls, named)', [{'a': x, 'b': y} for x in bw for y in bn]))
    # family 5: every left-call graph: each rule is `x 't' | y 't' | ... | 't'` for a subset of the rules (which rule leads a
    # component that has several cycles depends on the whole graph, also on calls that leave the component)
    names = ('a', 'b', 'c') if tier == 'quick' else ('a', 'b', 'c', 'd')
    subsets = [[n for n, bit in zip(names, bits) if bit] for bits in itertools.product((0, 1), repeat=len(names))]
    graphs = []
    for combo in itertools.product(subsets, repeat=len(names)):
        graphs.append({r: [[c, 't'] for c in callees] + [['t']] for r, callees in zip(names, combo)})
    fams.append((f'{len(names)} rules, every left-call graph', graphs))
    return fams


# ---------------------------------------------------------------- hidden recursion, with cuts

def hidden_graphs(tier):
    """Grammars outside the detection clause (a nullable *rule* sits in front of the recursive call, so the analysis
    cannot see the cycle) but inside the run-time clause: no grammar and input recurse without bound.  The run-time
    guard for such rules lives in the memo table, which cuts prune: alternatives with cuts come first."""
    # G: a nested choice whose first option takes a cut; O: a cut inside an optional; l: a marked left-recursive leader
    items = ('a', 'n', 't', 'x', '~', 'G', 'O', 'l')
    seq1 = [[i] for i in items]
    seq2 = [[i, j] for i in items for j in items]
    seq3 = [[i, j, k] for i in items for j in items for k in items]
    alt1 = [s for s in seq1 + seq2 if {'G', '~', 'O', 'l'} & set(s)]
    alt2 = [s for s in seq1 + seq2 + (seq3 if tier != 'quick' else [s for s in seq3 if s[2] == 't'])
            if s[0] in ('n', 'a') and 'a' in s]
    alt3 = [None, ['t'], ['x']]
    for a1 in alt1:
        for a2 in alt2:
            for a3 in alt3:
                for deco in ('', '@nostak\n'):      # a rule kept off the call stack still needs its guard
                    yield deco, [a1, a2] + ([a3] if a3 else [])


def hidden_text(case):
    deco, alts = case

    def item(it):
        return {'t': "'t'", 'x': "'x'", 'G': "('x' ~ 't' | 't')", 'O': "['x' ~ 't']"}.get(it, it)
    body = ' | '.join(' '.join(item(i) for i in alt) for alt in alts)
    return f"{deco}a: {body} ;\n\nn: ['t'] ;\n\nl: l 'p' | 'q' ;\n"


def shard_hidden(m, items):
    from tatsu.exceptions import ParseException
    from .. import impl
    signal.signal(signal.SIGALRM, _alarm)
    for alts in items:
        text = hidden_text(alts)
        try:
            model = impl.compile_text(text)
        except ParseException:
            m.add('hidden_rejected_at_compile')
            continue
        except Exception as e:  # noqa
            m.violation(f'hidden/compile-crash/{type(e).__name__}', grammar=text, error=str(e)[:200])
            continue
        m.add('states')
        m.add('hidden_graphs')
        for t in BATTERY + ['x t', 'x x', 't x t']:
            m.add('evaluations')
            m.add('transitions')
            signal.setitimer(signal.ITIMER_REAL, 5.0)
            try:
                model.parse(t, start='a')
                m.add('nontrivial')
            except ParseException:
                pass
            except RecursionError:
                m.violation('hidden/unbounded-recursion', grammar=text, input=t)
            except Watchdog:
                m.violation('hidden/hang', grammar=text, input=t)
            except Exception as e:  # noqa
                m.violation(f'hidden/foreign-exception/{type(e).__name__}', grammar=text, input=t, error=str(e)[:200])
            finally:
                signal.setitimer(signal.ITIMER_REAL, 0)


# Rule includes and based rules: the right hand side a rule parses is the included / base right hand side followed by its own
# (docs/syntax.rst), so a left call may sit in another rule's text.  (grammar, rules on a left cycle)  — labelled by hand.
FORM_GRAMMARS = [
    ("pre: e '+' ;\n\ne: >pre t | t ;\n\nt: 't' ;", {'pre', 'e'}),
    ("pre: [e '+'] ;\n\ne < pre: t ;\n\nt: 't' ;", {'pre', 'e'}),
    ("pre: 't' ;\n\ne < pre: e '+' | () ;", set()),
    ("pre: ['-'] ;\n\ne < pre: e '+' | 't' ;", {'e'}),
    ("pre: 't' '+' ;\n\ne: >pre e | 't' ;", set()),
    ("pre: ['-'] {'+'} ;\n\ne: >pre e 't' | 't' ;", {'e'}),
    ("a: ['-'] ;\n\nb < a: ['+'] ;\n\nc < b: c 't' | 't' ;", {'c'}),
    ("a: 't' ;\n\nb < a: ['+'] ;\n\nc < b: c 't' | () ;", set()),
    ("a: ['-'] ;\n\nb < a: 't' ;\n\nc < b: c 't' | () ;", set()),
    ("a: x 't' ;\n\nb < a: 't' ;\n\nx: >b | 't' ;", {'a', 'b', 'x'}),
    ("a: 't' x ;\n\nb < a: 't' ;\n\nx: >b | 't' ;", set()),
]


def shard_forms(m, items):
    import contextlib
    import io
    from tatsu.exceptions import GrammarError, ParseException
    signal.signal(signal.SIGALRM, _alarm)
    for text, cyc in items:
        m.add('states')
        m.add('evaluations')
        try:
            impl.compile_text('@@left_recursion :: False\n\n' + text)
            raised = False
        except GrammarError:
            raised = True
        except Exception as ex:  # noqa
            m.violation(f'detection/forms/compile-raises-{type(ex).__name__}', grammar=text, error=str(ex)[:200])
            continue
        if raised != bool(cyc):
            m.violation('detection/forms/' + ('missed-left-cycle' if cyc else 'false-left-cycle'), grammar=text, left_cycle_rules=sorted(cyc), raised=raised)
        try:
            model = impl.compile_text(text)
        except Exception as ex:  # noqa
            m.violation(f'detection/forms/compile-raises-{type(ex).__name__}', grammar=text, error=str(ex)[:200])
            continue
        if cyc:
            m.add('nontrivial')
        for r in model.rules:
            if r.name not in cyc and (r.is_lrec or not r.is_memo):
                m.violation('flags/forms/rule-off-cycle-marked', grammar=text, rule=r.name, is_lrec=r.is_lrec, is_memo=r.is_memo)
        if cyc and not any(r.is_lrec for r in model.rules if r.name in cyc):
            m.violation('flags/forms/cycle-without-leader', grammar=text, left_cycle_rules=sorted(cyc))
        for r in model.rules:
            for t in ['', 't', 't t', 't + t', '- t t', 't + t + t', 't t t t', '+', '- + t']:
                m.add('evaluations')
                m.add('transitions')
                signal.setitimer(signal.ITIMER_REAL, 5.0)
                try:
                    with contextlib.redirect_stderr(io.StringIO()):
                        model.parse(t, start=r.name)
                except ParseException:
                    pass
                except RecursionError:
                    m.violation('unbounded-recursion/forms', grammar=text, start=r.name, input=t)
                except Watchdog:
                    m.violation('hang/forms', grammar=text, start=r.name, input=t)
                except Exception as ex:  # noqa
                    m.violation(f'foreign-exception/forms/{type(ex).__name__}', grammar=text, start=r.name, input=t, error=str(ex)[:200])
                finally:
                    signal.setitimer(signal.ITIMER_REAL, 0)


def run(rc):
    rc.pmap(shard_forms, FORM_GRAMMARS, chunk=1)
    rc.coverage['include_and_based_rule_grammars'] = len(FORM_GRAMMARS)
    hid = list(hidden_graphs(rc.tier))
    rc.pmap(shard_hidden, hid)
    rc.coverage['hidden_recursion_graphs'] = len(hid)
    fams = families(rc.tier)
    total = 0
    for name, graphs in fams:
        total += len(graphs)
        rc.pmap(shard, graphs)
        rc.coverage.setdefault('families', []).append({'family': name, 'graphs': len(graphs)})
    # control subset through tatsu.compile (text route)
    control = fams[0][1][::29] + fams[3][1][::101]
    rc.pmap(shard, control, text_control=True)
    rc.coverage['text_compiled_control_graphs'] = len(control)
    c = rc.total.counts
    rc.rule = ('every rule graph of the listed families (bodies = sequences of 1-2 (3) items over {rule calls, t, [t], {t}, [call]} with optional `| t` '
               'base; family 4 adds &t, !x, (), &call, !call, (call), {call}, {call}+, n:call), restricted as the property says to graphs with no call to a nullable rule in a left prefix; per graph: GrammarError under '
               '@@left_recursion::False iff the independent analysis finds a left cycle; non-cyclic rules memoized and not lrec; every rule as start x '
               f'{len(BATTERY)} inputs without RecursionError/hang; plus {len(hid)} one-rule grammars whose recursion hides behind a nullable rule call and whose earlier '
               'alternatives contain cuts (run-time clause only: no RecursionError/hang); non-trivial = graph with a left cycle')
    rc.coverage.update({
        'states': c.get('states', 0), 'transitions': c.get('transitions', 0),
        'traces_validated_against_impl': c.get('states', 0),
        'graphs_enumerated': total + len(control), 'graphs_outside_language': c.get('graphs_outside_language', 0),
        'lrec_patterns(cycle_rules,leaders)': sorted(rc.total.sets.get('lrec_patterns', ())),
    })
    rc.assumptions += ['independent analysis: nullable fixpoint + left-call graph + reachability (mc/checks/c16.py:analyse)',
                       'unbounded recursion is observed as RecursionError under the default interpreter limit or a 5 s watchdog']


def replay(data):
    """Re-executes one recorded case on the current tree: exit 1 if it still misbehaves."""
    import tatsu
    from tatsu.exceptions import GrammarError, ParseException
    d = data['detail']
    sig = data.get('signature', '')
    text = d['grammar']
    print(text)
    signal.signal(signal.SIGALRM, _alarm)
    if 'input' in d:
        model = tatsu.compile(text)
        signal.setitimer(signal.ITIMER_REAL, 10.0)
        try:
            print('parse ->', model.parse(d['input'], start=d.get('start') or model.rules[0].name))
        except ParseException as e:
            print('parse failed (bounded):', type(e).__name__)
        except (RecursionError, Watchdog) as e:
            print(f'VIOLATION property=C16 replay=reproduced ({type(e).__name__} on input {d["input"]!r})')
            return 1
        finally:
            signal.setitimer(signal.ITIMER_REAL, 0)
        return 0
    if sig.startswith('detection/'):
        try:
            tatsu.compile('@@left_recursion :: False\n\n' + text)
            raised = False
        except GrammarError:
            raised = True
        want = bool(d.get('left_cycle_rules'))
        print('GrammarError raised:', raised, '; independent analysis finds a left cycle:', want)
        if raised != want:
            print('VIOLATION property=C16 replay=reproduced')
            return 1
        return 0
    if sig.startswith('flags/'):
        model = tatsu.compile(text)
        r = model.rulemap[d['rule']]
        print(d['rule'], 'is_lrec', r.is_lrec, 'is_memo', r.is_memo)
        if r.is_lrec or not r.is_memo:
            print('VIOLATION property=C16 replay=reproduced')
            return 1
        return 0
    print('replay: nothing executable in this record')
    return 1
