"""C11 — reserved words are never accepted where a name is required.

Keyword sets x grammar shapes using an @name rule (bare, in a choice with the
keyword token, in a closure, under lookaheads, as a helper, followed by a
fallback alternative) x ignorecase {off, directive, parse-time setting} x all
word sequences up to length 3 over keywords, prefixes/suffixes and case
variants; model and generated parser.
Oracles: the reference evaluator with the keyword rule; model-free: no value
accepted by the @name rule is a keyword; removing @name changes the outcome
only where the rule body produced a keyword.
"""
from __future__ import annotations

import itertools

from .. import gramspace as gs
from .. import impl
from ..refsem import Cfg, Ref, Undecided
from . import c02

PROPERTY = 'C11'
LEVEL = 'model_checking'

WORDS = ['if', 'IF', 'If', 'iff', 'xif', 'i', 'x', 'else', 'END', 'end']
KEYSETS = [('if',), ('if', 'else'), ('if', 'else', 'end'), ('IF',), ("end",)]


def T(s):
    return ('tok', s)


def C(n):
    return ('call', n)


ID = gs.Rule('id', ('pat', r'\w+'), decorators=('name',))
ID_PLAIN = gs.Rule('id', ('pat', r'\w+'))

# other ways of writing the @name rule: based on another rule, including one, calling one (value: the same string)
SIGIL = gs.Rule('sigil', ('opt', T('$')))
WORD = gs.Rule('word', ('pat', r'\w+'))
NAME_FORMS = {
    'pattern': ([ID], [ID_PLAIN]),
    'based': ([SIGIL, gs.Rule('id', ('ovr', ('pat', r'\w+')), base='sigil', decorators=('name',))], [SIGIL, gs.Rule('id', ('ovr', ('pat', r'\w+')), base='sigil')]),
    'include': ([WORD, gs.Rule('id', ('inc', 'word'), decorators=('name',))], [WORD, gs.Rule('id', ('inc', 'word'))]),
    'call': ([gs.Rule('id', C('word'), decorators=('name',)), WORD], [gs.Rule('id', C('word')), WORD]),
}

SHAPES = {
    'bare': [gs.Rule('start', ('seq', C('id'), ('eof',)))],
    'choice-with-keyword': [gs.Rule('start', ('seq', ('alt', ('seq', T('if'), C('id')), C('id')), ('eof',)))],
    'closure': [gs.Rule('start', ('seq', ('pclo', C('id')), ('eof',)))],
    'lookahead': [gs.Rule('start', ('seq', ('alt', ('seq', ('look', C('id')), ('named', 'n', C('id'))), ('named', 'w', ('pat', r'\s*\w+'))), ('eof',)))],
    'negative-lookahead': [gs.Rule('start', ('seq', ('clo', ('alt', ('seq', ('nlook', C('id')), ('named', 'k', ('pat', r'\s*\w+'))), ('named', 'n', C('id')))), ('eof',)))],
    'helper': [gs.Rule('start', ('seq', C('stmt'), ('eof',))),
               gs.Rule('stmt', ('alt', ('seq', T('if'), ('named', 'c', C('id')), ('opt', ('seq', T('else'), ('named', 'e', C('id'))))), ('named', 'v', C('id'))))],
    'fallback': [gs.Rule('start', ('seq', ('clo', ('alt', ('named', 'n', C('id')), ('named', 'k', C('kw')))), ('eof',))),
                 gs.Rule('kw', ('alt', T('if'), T('else'), T('end'), T('IF')))],
    'named-rule-value': [gs.Rule('start', ('seq', ('clo', C('id')), ('opt', C('wrapped')), ('eof',))), gs.Rule('wrapped', ('seq', T('end'), C('id')))],
}


class LogNames:
    """Semantics: records every value the @name rule is allowed to return."""

    def __init__(self):
        self.accepted = []

    def id(self, ast, *a, **k):
        self.accepted.append(ast)
        return ast

    def _default(self, ast, *a, **k):
        return ast


def reuse_shard(m, items):
    """One generated parser object used for two parses that differ in the parse-time ignorecase / keywords settings:
    the second parse must give what a fresh parser object gives for it."""
    words = ['if', 'IF', 'If', 'x', 'x if', 'if x', 'x IF']
    modes = [{}, {'ignorecase': True}, {'ignorecase': False}]
    for shape, ks in items:
        g = gs.Grammar(rules=SHAPES[shape] + [ID], keywords=ks)
        label = gs.render_grammar(g)
        model = impl.compile_text(label)
        pcls, _src = c02.load_generated(model)
        for s1 in modes:
            for s2 in modes:
                if s1 == s2:
                    continue
                for w1 in words:
                    for w2 in words:
                        parser = pcls()
                        try:
                            parser.parse(w1, **s1)
                        except Exception:  # noqa
                            pass
                        got = c03_reused(parser, w2, s2)
                        want = c02.generated_parse(pcls, w2, **s2)
                        m.add('evaluations', 2)
                        m.add('transitions', 2)
                        m.add('states')
                        m.add('nontrivial')
                        if got[0] != want[0] or (got[0] == 'ok' and got[1] != want[1]):
                            m.violation(f'reused-parser/second-parse-differs-from-fresh-parser/{shape}', grammar=label, first=[w1, s1], second=[w2, s2],
                                        got=got, want=want)


def c03_reused(parser, text, settings):
    from tatsu.exceptions import FailedParse, ParseException
    try:
        return ('ok', impl.norm(parser.parse(text, **settings)))
    except FailedParse as e:
        return ('fail', type(e).__name__, getattr(e, 'pos', None))
    except ParseException as e:
        return ('fail', type(e).__name__, None)
    except Exception as e:  # noqa
        return ('exc', type(e).__name__, str(e)[:100])


def cases():
    for shape in SHAPES:
        for ks in KEYSETS:
            for icmode in ('off', 'directive', 'setting', 'directive-false', 'setting-false', 'directive-true-setting-false'):
                yield shape, ks, icmode, 'pattern'
    for form in ('based', 'include', 'call'):
        for shape in SHAPES:
            for ks in KEYSETS[:2]:
                for icmode in ('off', 'directive'):
                    yield shape, ks, icmode, form


def shard(m, items, maxwords=3):
    inputs = [' '.join(t) for n in range(0, maxwords + 1) for t in itertools.product(WORDS, repeat=n)]
    for shape, ks, icmode, form in items:
        dirs = {'directive': {'ignorecase': True}, 'directive-false': {'ignorecase': False},
                'directive-true-setting-false': {'ignorecase': True}}.get(icmode, {})
        settings = {'setting': {'ignorecase': True}, 'setting-false': {'ignorecase': False},
                    'directive-true-setting-false': {'ignorecase': False}}.get(icmode, {})
        ic = icmode in ('directive', 'setting')
        g = gs.Grammar(rules=SHAPES[shape] + NAME_FORMS[form][0], directives=dirs, keywords=ks)
        gp = gs.Grammar(rules=SHAPES[shape] + NAME_FORMS[form][1], directives=dirs, keywords=ks)
        label = gs.render_grammar(g)
        if form != 'pattern':
            shape = f'{shape}/{form}-name-rule'
        try:
            model = impl.compile_text(label)
            plain = impl.compile_text(gs.render_grammar(gp))
            pcls, _src = c02.load_generated(model)
        except Exception as ex:  # noqa
            m.violation(f'compile-or-codegen-failed/{type(ex).__name__}', grammar=label, error=str(ex)[:300])
            continue
        m.add('programs')
        ref = Ref(g, Cfg(ignorecase=ic, keywords=ks))
        folded = {k.upper() if ic else k for k in ks}
        if ks:
            impl.rule_reach(m, 'shape-rules', f'{shape}/{icmode}', model, inputs, **settings)
        nkw = 0
        for t in inputs:
            sem = LogNames()
            got = impl.parse(model, t, semantics=sem, **settings)
            gen = c02.generated_parse(pcls, t, semantics=LogNames(), **settings)
            und = impl.parse(plain, t, **settings)
            m.add('evaluations', 3)
            m.add('transitions', 3)
            m.add('states')
            try:
                want = ref.parse(t)
            except Undecided:
                want = None
            # under the recorded keyword-folding defect the model-free oracles cannot tell cause from effect
            explained = icmode == 'directive-true-setting-false'
            if want is not None:
                ok = (want[0] == 'fail' and got[0] == 'fail') or (want[0] == 'ok' and got[0] == 'ok' and got[1] == want[1])
                if not ok:
                    sig = f'differs-from-reference/{shape}/{icmode}'
                    if icmode == 'directive-true-setting-false':
                        # recorded finding: the keyword table is upper-cased for good when the grammar is built under
                        # @@ignorecase :: True; a parse-time ignorecase=False then compares unfolded names with it.
                        try:
                            alt = Ref(g, Cfg(ignorecase=False, keywords=tuple(k.upper() for k in ks))).parse(t)
                            if (alt[0] == 'fail' and got[0] == 'fail') or (alt[0] == 'ok' and got[0] == 'ok' and got[1] == alt[1]):
                                sig = 'defect:keyword-table-stays-folded-when-ignorecase-directive-is-overridden'
                                explained = True
                        except Undecided:
                            pass
                    m.violation(sig, grammar=label, input=t, settings=settings, got=got, want=want)
            if got[0] != gen[0] or (got[0] == 'ok' and got[1] != gen[1]):
                m.violation(f'model-generated-differ/{shape}/{icmode}', grammar=label, input=t, settings=settings, model=got, generated=gen)
            if got[0] == 'exc' or (got[0] == 'fail' and got[1] and 'Failed' not in got[1] and got[1] != 'KeywordError'):
                m.violation(f'rejection-not-a-parse-failure/{shape}', grammar=label, input=t, got=got)
            # model-free: nothing the @name rule returned is a keyword
            for v in sem.accepted:
                s = str(v).upper() if ic else str(v)
                if s in folded and not explained:
                    m.violation(f'keyword-accepted-as-name/{shape}/{icmode}', grammar=label, input=t, value=v, keywords=list(ks))
            # model-free: the decorator only matters where the body produced a keyword
            words = t.split()
            has_kw = any((w.upper() if ic else w) in folded for w in words)
            if has_kw:
                nkw += 1
                m.add('nontrivial')
            elif got != und and not explained:
                m.violation(f'decorator-changes-non-keyword-input/{shape}/{icmode}', grammar=label, input=t, decorated=got, undecorated=und)
        m.sample({'shape': shape, 'keywords': list(ks), 'ignorecase': icmode, 'inputs': len(inputs), 'inputs_with_keywords': nkw})


def run(rc):
    cs = list(cases())
    rc.pmap(shard, cs, chunk=1, maxwords=3 if rc.tier == "quick" else 4)
    rc.pmap(reuse_shard, [(sh, ks) for sh in ('bare', 'closure', 'choice-with-keyword') for ks in KEYSETS[:2] + KEYSETS[3:4]], chunk=1)
    c = rc.total.counts
    rc.rule = (f'{len(SHAPES)} grammar shapes around an @name rule (written as a pattern; and, for two keyword sets and ignorecase off/directive, as a based rule, a rule include, a rule call) x {len(KEYSETS)} keyword sets x ignorecase {{off, directive, parse-time setting, explicit False as directive / setting, directive True overridden by setting False}} x all '
               f'word sequences of length <= {3 if rc.tier == "quick" else 4} over {WORDS}; model, generated parser and undecorated grammar; '
               'non-trivial = input containing a keyword (case-folded under ignorecase)')
    rc.coverage.update({'states': c.get('states', 0), 'transitions': c.get('transitions', 0),
                        'traces_validated_against_impl': c.get('states', 0), 'programs': c.get('programs', 0)})
    rc.assumptions += ['the @name rule body is a pattern producing a single string, as the documentation requires']


def replay(data):
    import sys
    from ..replay import replay_by_rerun
    return replay_by_rerun(sys.modules[__name__], data)
