"""C12 part (c): parse information on model nodes.

For every type-annotated grammar template (the C07 corpus) and every input
over its alphabet plus blanks and line breaks, with model building and
parseinfo on, every node of the tree carries a parseinfo whose rule is a rule
declared with the node's class (or an untyped rule that passes such a rule's
value through), whose span starts after leading whitespace, whose start line
is the line of the start offset, whose text is the span — and whose span,
parsed again on its own from that rule, is accepted and yields the same node
shape (the span delimits what the rule consumed).
"""
from __future__ import annotations

from .. import gramspace as gs
from .. import impl
from . import c07


def shape(v):
    """Structure of a node tree without positions."""
    from tatsu.objectmodel import Node
    if isinstance(v, Node):
        pub = {k: shape(x) for k, x in v.__pub__().items() if k not in ('parseinfo', 'ctx')}
        return {'<class>': type(v).__name__, **pub}
    if isinstance(v, dict):
        return {k: shape(x) for k, x in v.items() if k not in ('parseinfo', '__parseinfo__')}
    if isinstance(v, (list, tuple)):
        return [shape(x) for x in v]
    return v


def check(m, where, model, text):
    from tatsu.exceptions import ParseException
    try:
        built = model.parse(text, asmodel=True, parseinfo=True)
    except ParseException:
        return False
    except Exception as e:  # noqa
        m.violation(f'c/model-building-raises/{type(e).__name__}', error=str(e)[:200], **where)
        return False
    before = len(m.violations)
    c07.check_parseinfo(m, where, model, text)
    for v in m.violations[before:]:
        v['signature'] = 'c/' + v['signature']
    for n in c07.all_nodes(built):
        pi = n.parseinfo
        if pi is None:
            continue
        m.add('nontrivial')
        seg = text[pi.pos:pi.endpos]
        try:
            again = model.parse(seg, start=pi.rule, asmodel=True, parseinfo=True)
        except Exception as e:  # noqa
            m.violation('c/span-is-not-a-match-of-the-rule', cls=type(n).__name__, parseinfo=[pi.rule, pi.pos, pi.endpos], segment=seg,
                        error=type(e).__name__, **where)
            continue
        m.add('evaluations')
        if shape(again) != shape(n):
            m.violation('c/span-parsed-again-gives-another-node', cls=type(n).__name__, parseinfo=[pi.rule, pi.pos, pi.endpos], segment=seg,
                        node=shape(n), again=shape(again), **where)
    return True


def shard(m, items, maxlen=4):
    for tname in items:
        tpl, alpha = c07.TEMPLATES[tname]
        prefix = f'{tname.replace("-", "").title()}L'
        gtext = tpl.format(p=prefix)
        try:
            model = impl.compile_text(gtext)
        except Exception as e:  # noqa
            m.violation(f'c/compile-failed/{type(e).__name__}', error=str(e)[:300], grammar=gtext)
            continue
        m.add('c_programs')
        alpha = [a for a in alpha if a != ' '] + [' ', '\n']
        for text in gs.inputs(alpha, maxlen):
            m.add('evaluations')
            if check(m, dict(grammar=gtext, input=text), model, text):
                m.add('c_cases')
        for text in ('\r\n' + alpha[0], ' \r' + alpha[0], alpha[0] + '\r' + alpha[0]):
            check(m, dict(grammar=gtext, input=text), model, text)


def run_partc(rc):
    quick = rc.tier == 'quick'
    rc.pmap(shard, [t for t in c07.TEMPLATES if not t.startswith('element-name-')], chunk=1, maxlen=5 if quick else 6)
    rc.coverage['partc'] = {'programs': rc.count('c_programs'), 'accepted_inputs': rc.count('c_cases')}
