"""C08 — bad input and bad grammars are reported as TatSu errors at valid positions.

(a) inputs: a family of compiled grammars (core language, every @meta, $->,
    skip-to, named rules, left recursion, whitespace variants) x ALL strings up
    to a length bound over a hostile alphabet, through TextLines (str) and the
    legacy Buffer, parseinfo on/off.
(b) grammars: the complete single-edit neighbourhood (delete, insert one of the
    metacharacters, transpose) of small valid seed grammars as compile input.
Oracle: a value or a TatSu ParseException; never another exception,
RecursionError or watchdog timeout; a failure position lies in the text, its
line/column/source line agree with it, and str(e) renders.
"""
from __future__ import annotations

import contextlib
import io
import itertools
import signal

from .. import gramspace as gs
from .. import impl
from .c12 import ref_at, split_ref

PROPERTY = 'C08'
LEVEL = 'exploration'

ALPHA = ['1', 'a', '+', '.', '_', 'e', ' ', '\n', '\r', '\x00', 'é', '-']

GRAMMARS = {
    'core': "start: {item}+ $ ;\n\nitem: 'a' | /\\d+/ | '+' ~ item | '.' item '.' | x:'e' y:[item] ;\n",
    'int': "start: {v+:@int}+ $ ;\n",
    'uint': "start: {@uint}+ $ ;\n",
    'float': "start: {@float}+ $ ;\n",
    'bool-name': "start: {@bool | n:@name}+ $ ;\n",
    'meta-seq': "start: @name '+' @int '.' @uint | @float 'e' @bool ;\n",
    'eol': "start: {'a' $->}+ $ ;\n",
    'eol-plain': "start: 'a' $-> 'a' | $-> ;\n",
    'skipto': "start: ->'+' {'a'} ->&'.' /./ $ ;\n",
    'named': "start: x:'a' y:['+'] z:{/1/} w+:/./ ;\n",
    'leftrec': "start: e $ ;\n\ne: e '+' t | e '-' t | t ;\n\nt: /\\d/ | 'a' | '.' e '.' ;\n",
    'lookahead': "start: {&'a' 'a' | !'a' !'.' /./}* '.' ;\n",
    'upper': "start: {W | N}+ $ ;\n\nW: /[a_e]+/ ;\n\nN: /\\d+/ /[.]?/ ;\n",
    'nows': "@@whitespace :: None\n\nstart: {'a' | ' ' | /\\n/ | '1'}+ $ ;\n",
    'ws-tab': "@@whitespace :: /[\\t ]+/\n\nstart: {'a' | NL}+ $ ;\n\nNL: /\\r?\\n|\\r/ ;\n",
    'const': "start: 'a' `1` c:`x{c}` | '1' ^`warn {x}` x:'+' | '.' ^^`two` ;\n",
    'join': "start: '+'%{@int}+ | '.'.{'a'} 'e' ;\n",
    'dot': "start: /./ /./ [/./] $ ;\n",
    # repetitions over bodies that can match the empty string: every iteration must make progress
    'nullable-closure': "start: {['+']} '.' ;\n",
    'nullable-closure-pattern': "start: {/a?/} {[@int]}+ '.' ;\n",
    'nullable-join': "start: '.'%{['+']} 'e' | '.'.{/a?/}+ '1' ;\n",
    'nullable-rule-closure': "start: {n}+ '.' | {$->} 'e' ;\n\nn: ['a'] ['+'] ;\n",
    # rounds that can succeed without taking input although they pass a cut (the join's own after the separator, or a written one)
    'nullable-join-nullable-separator': "start: (['+'])%{['a']} '.' | ('-' | ()).{[@int]}+ 'e' ;\n",
    'nullable-closure-with-cut': "start: {~ ['a']} '.' | {'+' ~ | ()}+ 'e' ;\n",
    # @name rules whose value is not a string: a list (dotted name), a dict (named element), a number, nothing at all
    'keyword-compound-name': "@@keyword :: a e\n\nstart: {n}+ $ ;\n\n@name\nn: /[ae_]+/ {'.' /[ae_]+/} | '+' k:/[ae]/ | @int | '-' () ;\n",
    'keyword-compound-name-ic': "@@ignorecase :: True\n@@keyword :: a E\n\nstart: {n}+ $ ;\n\n@name\nn: /[ae_]+/ {'.' /[ae_]+/} | '+' k:/[ae]/ | @int | '-' () ;\n",
}
# grammars whose whitespace pattern can match the empty string
WS_GRAMMARS = {
    'ws-nullable': "@@whitespace :: /\\s*/\n\nstart: {'a'}+ $ ;\n",
    # comment patterns that match without taking input (and return a group, so the match is not an empty string)
    'comments-lookahead-group': "@@comments :: /(?=(#))/\n\nstart: {'a' | '#'}+ $ ;\n",
    'eol-comments-lookahead-group': "@@eol_comments :: /(?=(a))/\n\nstart: {'a' | '#'}+ $ ;\n",
}


class Watchdog(Exception):
    pass


def _alarm(*_a):
    raise Watchdog()


def texts(maxlen):
    for n in range(maxlen + 1):
        for t in itertools.product(ALPHA, repeat=n):
            yield ''.join(t)


def check_failure(m, label, text, e, route):
    pos = getattr(e, 'pos', None)
    if not isinstance(pos, int) or not (0 <= pos <= len(text)):
        m.violation(f'failure-position-outside-text/{route}', grammar=label, input=text, pos=pos, error=type(e).__name__)
        return
    info = getattr(e, 'info', None)
    if info is None:
        m.violation(f'failure-without-lineinfo/{route}', grammar=label, input=text, error=type(e).__name__)
        return
    lines = split_ref(text)
    if pos < len(text):
        ln, col, start, end, t = ref_at(lines, pos)
        if (info.line, info.col, info.text) != (ln, col, t):
            m.violation(f'failure-location-disagrees-with-position/{route}', grammar=label, input=text, pos=pos,
                        got=[info.line, info.col, info.text], want=[ln, col, t])
    else:
        ok = (not lines and info.line == 0) or (0 <= info.line < max(1, len(lines)) and (not lines or info.text == lines[info.line][1]) and 0 <= info.col <= len(info.text))
        if not ok:
            m.violation(f'failure-location-invalid-at-end/{route}', grammar=label, input=text, pos=pos, got=[info.line, info.col, info.text])
    try:
        s = str(e)
        if not isinstance(s, str) or not s:
            m.violation(f'failure-message-empty/{route}', grammar=label, input=text)
    except Exception as ex:  # noqa
        m.violation(f'failure-message-raises/{type(ex).__name__}/{route}', grammar=label, input=text)


def parse_case(m, label, model, text, route, parseinfo, gname=''):
    from tatsu.exceptions import FailedParse, ParseException
    from tatsu.input.buffer import Buffer
    import contextlib, io
    m.add('evaluations')
    signal.setitimer(signal.ITIMER_REAL, 3.0)
    try:
        with contextlib.redirect_stderr(io.StringIO()):
            inp = Buffer(text, config=model.config) if route == 'buffer' else text
            model.parse(inp, parseinfo=parseinfo)
        return 'ok'
    except FailedParse as e:
        signal.setitimer(signal.ITIMER_REAL, 0)
        check_failure(m, label, text, e, route)
        return 'fail'
    except ParseException as e:
        m.violation(f'non-positional-parse-exception/{type(e).__name__}/{route}', grammar=label, input=text, error=str(e)[:100])
        return 'fail'
    except Watchdog:
        m.violation(f'hang/{gname}/{route}', grammar=label, input=text)
        return 'hang'
    except RecursionError:
        m.violation(f'recursion-error/{gname}/{route}', grammar=label, input=text)
        return 'exc'
    except Exception as e:  # noqa
        m.violation(f'foreign-exception/{type(e).__name__}/{gname}/{route}', grammar=label, input=text, parseinfo=parseinfo, error=str(e)[:120])
        return 'exc'
    finally:
        signal.setitimer(signal.ITIMER_REAL, 0)


def shard_inputs(m, items):
    signal.signal(signal.SIGALRM, _alarm)
    cache = {}
    for name, gtext, chunk in items:
        if name not in cache:
            try:
                cache[name] = impl.compile_text(gtext)
            except Exception as ex:  # noqa
                m.violation(f'seed-grammar-does-not-compile/{name}', grammar=gtext, error=str(ex)[:200])
                cache[name] = None
        model = cache[name]
        if model is None:
            continue
        for text in chunk:
            outs = set()
            for route in ('str', 'buffer'):
                for pi in (False, True):
                    outs.add(parse_case(m, gtext, model, text, route, pi, name))
            if 'ok' in outs:
                m.add('nontrivial')
            if 'ok' in outs and len(text) >= 2:
                m.sample({'grammar': gtext, 'input': text, 'outcomes': sorted(outs)}, limit=2)
            if len(outs - {'exc', 'hang'}) > 1:
                m.violation('accept-differs-between-inputs-or-parseinfo', grammar=gtext, input=text, outcomes=sorted(outs))


# ------------------------------------------------------------------ (b)

SEEDS = [
    "start: 'a' b $ ;\n\nb: /x+/ | () ;\n",
    "@@grammar :: G\n@@whitespace :: /[ ]+/\n\nstart: {x:'a'}+ ;\n",
    "start[A, k=1]: @:e ;\n\ne: e '+' /\\d/ | /\\d/ ;\n",
    "@@keyword :: if\n\n@name\nid: /\\w+/ ;\n",
    "start: ','%{'a'}+ [`c`] !'b' &/./ ->'c' ;\n",
    "start: a:(b | 'c') ;\n\nb: ?\"x/y\" ~ {}  ;\n",
    "start::T: x+:'a' ;\n\nd < start: 'b' ;\n",
    "@@nameguard :: False\n@@ignorecase :: True\n\nstart: @int | @name $-> ;\n",
]
META = ['(', ')', '[', ']', '{', '}', '|', ':', ';', "'", '"', '/', '~', '@', '$', '<', '>', '=', '+', '*', '?', '\\', '`', '&', '!', '%', '.', ',', '\n', ' ', '#']


def edits(seed):
    out = []
    n = len(seed)
    for i in range(n):
        out.append(seed[:i] + seed[i + 1:])
    for i in range(n + 1):
        for c in META:
            out.append(seed[:i] + c + seed[i:])
    for i in range(n - 1):
        if seed[i] != seed[i + 1]:
            out.append(seed[:i] + seed[i + 1] + seed[i] + seed[i + 2:])
    return out


def shard_grammars(m, items):
    import tatsu
    from tatsu.exceptions import FailedParse, GrammarError, ParseException
    import contextlib, io
    signal.signal(signal.SIGALRM, _alarm)
    for text in items:
        m.add('evaluations')
        signal.setitimer(signal.ITIMER_REAL, 20.0)
        try:
            with contextlib.redirect_stderr(io.StringIO()):
                impl.clear_compile_cache()
                tatsu.compile(text)
            m.add('nontrivial')    # still a valid grammar
            m.sample({'edited_grammar_still_valid': text}, limit=1)
        except FailedParse as e:
            signal.setitimer(signal.ITIMER_REAL, 0)
            check_failure(m, '<grammar text>', text, e, 'compile')
        except (GrammarError, ParseException):
            pass
        except Watchdog:
            m.violation('hang/compile', grammar=text)
        except RecursionError:
            import re as _re
            shape = 'positive-closure-of-self-call' if _re.search(r'\b(\w+)\s*:(?:[^;]*\W)?\1\+(?!:)', text) else 'other'
            m.violation(f'recursion-error/compile/{shape}', grammar=text)
        except Exception as e:  # noqa
            m.violation(f'foreign-exception/{type(e).__name__}/compile', grammar=text, error=str(e)[:150])
        finally:
            signal.setitimer(signal.ITIMER_REAL, 0)


# ------------------------------------------------------------------ (c) lexeme bodies

TOKEN_ALPHA = ['\\', 'x', 'N', 'u', '{', '}', '0', 'z']
PATTERN_LEX = ['a{99999999999999999999}', '(?a)', '(?u)', '(?i)', '(?x)', '(?L)', '(?P<n>', '(?P=n)', '(?#', '\\1', 'a', '(', ')', '\\', '"', "'", '*', '+', '?', '[', ']', '{', '}', '^', '|', '{2,1}']
CONST_ALPHA = ['{', '}', '[', ']', ':', '1', 'x', ',', '(', ')', "'", ' ', '*', '.']


def lexeme_grammars(tier):
    """(where, grammar text, inputs) — each lexeme position of the grammar language filled with every short body."""
    quick = tier == 'quick'
    for n in range(1, (4 if quick else 5) + 1):
        for t in itertools.product(TOKEN_ALPHA, repeat=n):
            b = ''.join(t)
            yield ('token', f"start: '{b}' ;\n", ['', 'z'])
    for n in range(1, (2 if quick else 3) + 1):
        for t in itertools.product(PATTERN_LEX, repeat=n):
            b = ''.join(t)
            if '/' in b or '\n' in b:
                continue
            yield ('pattern', f"start: /{b}/ ;\n", ['', 'a', 'aa'])
            if n <= 2:
                yield ('pattern-string-form', f"start: ?{b!r} ;\n", ['', 'a'])
                yield ('whitespace-directive', f"@@whitespace :: /{b}/\n\nstart: 'a' 'a' ;\n", ['a a', 'aa'])
                yield ('whitespace-directive-string', f"@@whitespace :: {b!r}\n\nstart: 'a' 'a' ;\n", ['a a'])
                yield ('comments-directive', f"@@comments :: /{b}/\n\nstart: 'a' 'a' ;\n", ['a a'])
                yield ('eol-comments-directive', f"@@eol_comments :: /{b}/\n\nstart: 'a' 'a' ;\n", ['a a'])
    # quotes and backslashes in patterns (the printable form of a pattern is a Python raw string)
    for n in range(1, (4 if quick else 6) + 1):
        for t in itertools.product(['\\\\', '\\"', "\\'", '"', "'", 'a'], repeat=n):
            yield ('pattern-quotes', f"start: /{''.join(t)}/ ;\n", ['', 'a'])
    # capture groups that may or may not take part in the match (the matched text is chosen among the groups)
    groups = ['(a)', '(a)?', '(b)*', '(?:(a)|(b))?', '(a|b)', '(-)?']
    for g1 in groups:
        for g2 in groups + ['']:
            for tail in ('', 'c', 'c?', '\\d+(\\.\\d+)?'):
                yield ('pattern-groups', f"start: /{g1}{g2}{tail}/ ;\n", ['', 'a', 'c', 'ac', 'ab', 'abc', 'b', '5', '-5.5', 'bb'])
    # literal look-alikes in constants
    for n in range(1, (5 if quick else 6) + 1):
        for t in itertools.product(['{', '}', '[]', ':', '1', ','], repeat=n):
            yield ('constant-literal', f"start: x:'a' c:`{''.join(t)}` ;\n", ['a'])
    # a rule that does not exist, in every place a rule can be named
    for ctx in ["x", "'a' x", "[x]", "{x}", "{x}+", "(x)", "&x", "!x", "n:x", "n+:x", "@:x", "@+:x", "x.{'a'}", "x.{'a'}+", "x%{'a'}", "x%{'a'}+", "'a'.{x}", "'a'%{x}+",
                "x<{'a'}+", "x>{'a'}+", "'a'<{x}+", "->x", ">x", "'a' | x", "() x", "('a' x)%{'a'}"]:
        yield ('unknown-rule', f"start: {ctx} ;\n", ['', 'a', 'a a', 'a a a'])
    yield ('unknown-rule', "start < x: 'a' ;\n", ['a'])
    for n in range(1, (3 if quick else 4) + 1):
        for t in itertools.product(CONST_ALPHA, repeat=n):
            b = ''.join(t)
            if '`' in b:
                continue
            yield ('constant', f"start: x:'a' c:`{b}` ;\n", ['a'])
            if n <= 2:
                yield ('alert', f"start: x:'a' ^`{b}` ;\n", ['a'])


def shard_lexemes(m, items):
    import tatsu
    from tatsu.exceptions import FailedParse, GrammarError, ParseException
    signal.signal(signal.SIGALRM, _alarm)
    for where, text, inputs in items:
        m.add('evaluations')
        m.add('lexeme_grammars')
        signal.setitimer(signal.ITIMER_REAL, 20.0)
        model = None
        try:
            with contextlib.redirect_stderr(io.StringIO()):
                impl.clear_compile_cache()
                model = tatsu.compile(text)
        except (FailedParse, GrammarError, ParseException):
            pass
        except Watchdog:
            m.violation(f'hang/compile/{where}', grammar=text)
        except RecursionError:
            m.violation(f'recursion-error/compile/{where}', grammar=text)
        except Exception as e:  # noqa
            m.violation(f'foreign-exception/{type(e).__name__}/compile/{where}', grammar=text, error=str(e)[:150])
        finally:
            signal.setitimer(signal.ITIMER_REAL, 0)
        if model is None:
            continue
        m.add('nontrivial')
        for t in inputs:
            signal.setitimer(signal.ITIMER_REAL, 5.0)
            try:
                with contextlib.redirect_stderr(io.StringIO()):
                    model.parse(t)
            except ParseException:
                pass
            except Watchdog:
                m.violation(f'hang/parse/{where}', grammar=text, input=t)
            except RecursionError:
                m.violation(f'recursion-error/parse/{where}', grammar=text, input=t)
            except Exception as e:  # noqa
                m.violation(f'foreign-exception/{type(e).__name__}/parse/{where}', grammar=text, input=t, error=str(e)[:150])
            finally:
                signal.setitimer(signal.ITIMER_REAL, 0)
            m.add('evaluations')


def shard_const_input(m, items):
    """A constant that interpolates input text: the parse must return (or fail) whatever the text says."""
    from tatsu.exceptions import ParseException
    signal.signal(signal.SIGALRM, _alarm)
    g = "start: x:/.*/ c:`{x}` ;\n"
    model = impl.compile_text(g)
    for t in items:
        m.add('evaluations')
        signal.setitimer(signal.ITIMER_REAL, 1.5)
        try:
            with contextlib.redirect_stderr(io.StringIO()):
                model.parse(t)
            m.add('nontrivial')
        except ParseException:
            pass
        except (Watchdog, MemoryError):
            m.violation('hang/parse/constant-interpolating-input-text', grammar=g, input=t)
        except RecursionError:
            m.violation('recursion-error/parse/constant-interpolating-input-text', grammar=g, input=t)
        except Exception as e:  # noqa
            m.violation(f'foreign-exception/{type(e).__name__}/parse/constant-interpolating-input-text', grammar=g, input=t, error=str(e)[:150])
        finally:
            signal.setitimer(signal.ITIMER_REAL, 0)


# ---- part (d): depth -------------------------------------------------------------------------
# Nesting is where a recursive-descent parser spends its stack.  Finite nesting must not end in a RecursionError;
# where it does (recorded finding: about 80 interpreter frames per nesting level of grammar text, about 9 per level of
# input), the battery pins the depth that is known to work, so that a change that makes each level more expensive shows.
_DEEPER = lambda n: 'a ' * (n + 1)      # noqa: E731  one token per level and one more
NEST_SHAPES = {       # name: (opening, closing, rest of the rule, the text of depth n that the grammar accepts)
    'group': ("('a' ", ")", ' $', _DEEPER), 'group-choice': ("('a' | 'b' ", ")", ' $', lambda n: 'b ' * n + 'a'),
    'optional': ("['a' ", "]", ' $', _DEEPER), 'closure': ("{'a' ", "}", ' $', _DEEPER), 'positive-closure': ("{'a' ", "}+", ' $', _DEEPER),
    'lookahead': ("&('a' ", ")", ' /[a ]*/ $', _DEEPER), 'negative-lookahead': ("!('b' ", ")", ' /[a ]*/ $', lambda n: 'a'),
    'named': ("x:('a' ", ")", ' $', _DEEPER), 'override': ("@:('a' ", ")", ' $', _DEEPER), 'join': ("','.{'a' ", "}", ' $', _DEEPER),
    'skip-to': ("->('a' ", ")", ' $', _DEEPER),
}
NEST_OK = (1, 2, 4, 6)          # must compile and parse
NEST_DEEP = (16, 24, 48)        # recorded finding when they end in RecursionError
INPUT_GRAMMARS = {
    'parens': ("start: e $ ;\n\ne: '(' e ')' | 'a' ;\n", lambda n: '(' * n + 'a' + ')' * n),
    'right-recursion': ("start: e $ ;\n\ne: 'a' e | 'b' ;\n", lambda n: 'a ' * n + 'b'),
    'optional-tail': ("start: e $ ;\n\ne: 'a' [e] ;\n", lambda n: 'a ' * n),
    'three-rules': ("start: e $ ;\n\ne: t '+' e | t ;\n\nt: '(' e ')' | f ;\n\nf: /\\d/ ;\n", lambda n: '(' * n + '1' + ')' * n),
}
INPUT_OK = (1, 8, 24)           # nesting depths of input that must parse
INPUT_DEEP = (200, 500)         # recorded finding when they end in RecursionError
FLAT_GRAMMARS = {                # iteration, not recursion: any length must parse
    'closure': ("start: {'a'} $ ;\n", lambda n: 'a ' * n),
    'join': ("start: ','.{'a'} $ ;\n", lambda n: ','.join(['a'] * n)),
    'left-recursion': ("start: e $ ;\n\ne: e '+' t | t ;\n\nt: /\\d/ ;\n", lambda n: '+'.join(['1'] * n)),
    'skip-to': ("start: ->'b' $ ;\n", lambda n: 'a' * n + 'b'),
    'whitespace-and-comments': ("@@eol_comments :: /#[^\\n]*/\n\nstart: 'a' 'b' $ ;\n", lambda n: 'a' + ' \n# c\n' * n + 'b'),
}
FLAT_LENGTHS = (10, 300, 1500)


def depth_items():
    for shape in NEST_SHAPES:
        for n in NEST_OK + NEST_DEEP:
            yield ('grammar', shape, n)
    for g in INPUT_GRAMMARS:
        for n in INPUT_OK + INPUT_DEEP:
            yield ('input', g, n)
    for g in FLAT_GRAMMARS:
        for n in FLAT_LENGTHS:
            yield ('flat', g, n)


def shard_depth(m, items):
    from tatsu.exceptions import ParseException
    signal.signal(signal.SIGALRM, _alarm)
    for kind, name, n in items:
        if kind == 'grammar':
            o, c, rest, mk = NEST_SHAPES[name]
            gtext, text = 'start: ' + o * n + "'a'" + c * n + rest + ' ;\n', mk(n)
            deep = n in NEST_DEEP
        else:
            gtext, mk = (INPUT_GRAMMARS if kind == 'input' else FLAT_GRAMMARS)[name]
            text = mk(n)
            deep = kind == 'input' and n in INPUT_DEEP
        where = f'{kind}-nesting/{name}/depth-{n}' if not deep else f'{kind}-nesting-beyond-the-depth-that-works'
        stage = 'compile'
        m.add('evaluations')
        signal.setitimer(signal.ITIMER_REAL, 30.0)
        try:
            with contextlib.redirect_stderr(io.StringIO()):
                model = impl.compile_text(gtext)
                stage = 'parse'
                model.parse(text)
            m.add('nontrivial')
            if deep:
                m.add('deep_cases_that_work')
        except ParseException as e:
            # every battery text is in the language of its grammar
            m.violation(f'depth/rejected/{stage}/{where}', grammar=gtext[:300], input=text[:80], depth=n, error=f'{type(e).__name__}: {e}'[:200])
        except Watchdog:
            m.violation(f'hang/{stage}/{where}', grammar=gtext[:300], input=text[:80], depth=n)
        except RecursionError:
            m.violation(f'recursion-error/{stage}/{where}', grammar=gtext[:300], input=text[:80], depth=n)
        except Exception as e:  # noqa
            m.violation(f'foreign-exception/{type(e).__name__}/{stage}/{where}', grammar=gtext[:300], input=text[:80], depth=n, error=str(e)[:150])
        finally:
            signal.setitimer(signal.ITIMER_REAL, 0)


def run(rc):
    quick = rc.tier == 'quick'
    di = list(depth_items())
    rc.pmap(shard_depth, di, chunk=2)
    rc.coverage['depth_cases'] = {'grammar_shapes': len(NEST_SHAPES), 'grammar_depths': list(NEST_OK + NEST_DEEP), 'input_grammars': len(INPUT_GRAMMARS),
                                  'input_depths': list(INPUT_OK + INPUT_DEEP), 'flat_grammars': len(FLAT_GRAMMARS), 'flat_lengths': list(FLAT_LENGTHS)}
    ci = [''.join(t) for n in range(0, 4) for t in itertools.product(['{x}', 'a', '{', '}', '1+1', "'"], repeat=n)]
    rc.pmap(shard_const_input, ci, chunk=4)
    rc.coverage['constant_interpolating_input_cases'] = len(ci)
    lex = list(dict.fromkeys((w, g, tuple(i)) for w, g, i in lexeme_grammars(rc.tier)))
    rc.pmap(shard_lexemes, lex)
    rc.coverage['lexeme_grammars'] = len(lex)
    maxlen = 3 if quick else 4
    ts = list(texts(maxlen))
    # longer, targeted inputs for the meta matchers
    ts += ['12_', '1__0', '1_000', '-7_', '1.+5', '1.e', '1e+', '2.5_', '+', '-', '1e5', 'true', 'True', 'false ', 'tru', '²', '１２',
           'a\r\n\r\na', '\r\r\n\n', 'é' * 5, '\x00\x00', '1 ' * 4, 'a' * 40,
           # more digits than the interpreter converts to an int by default (4300)
           '1' * 4301, '-' + '7' * 5000, '1' * 5000 + '.5', '1.5e' + '9' * 5000, '1_' * 2500]
    items = []
    for name, g in GRAMMARS.items():
        for i in range(0, len(ts), 250):
            items.append((name, g, ts[i:i + 250]))
    for name, g in WS_GRAMMARS.items():
        items.append((name, g, ['', 'a', ' a', 'a a', 'aa', 'a #a', '#', 'a#', '# a']))
    rc.pmap(shard_inputs, items, chunk=1)
    rc.coverage['input_cases'] = {'grammars': len(GRAMMARS) + len(WS_GRAMMARS), 'texts_per_grammar': len(ts)}
    ed = []
    for s in SEEDS if not quick else SEEDS:
        ed += edits(s)
    ed = list(dict.fromkeys(ed))
    rc.pmap(shard_grammars, ed)
    rc.coverage['grammar_edits'] = len(ed)
    rc.rule = (f'(a) {len(GRAMMARS) + len(WS_GRAMMARS)} grammars x all strings of length <= {maxlen} over {ALPHA!r} plus targeted numeric/boolean/unicode inputs x '
               '{str, Buffer} x parseinfo {off, on}; (b) complete single-edit neighbourhood (delete each char, insert each of '
               f'{len(META)} metacharacters at each position, transpose neighbours) of {len(SEEDS)} seed grammars; (c) every short body in each lexeme position '
               f'of the grammar language — token escapes, pattern bodies built from {len(PATTERN_LEX)} regex lexemes (also as ?"" form and as whitespace/comments/eol_comments directives), '
               f'constant and alert bodies — {len(lex)} grammars, compiled and parsed; non-trivial = accepted input / still-valid grammar')
    rc.assumptions += ['"hangs" = exceeds a 5 s (parse) / 20 s (compile) watchdog; "recurses without bound" = RecursionError at the default limit',
                       'at a failure position equal to len(text) only validity of the reported line/column is required']


def replay(data):
    import sys
    from ..replay import replay_by_rerun
    return replay_by_rerun(sys.modules[__name__], data)
