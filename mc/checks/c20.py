"""C20 — styling text never alters the text itself.

Complete enumeration of sub-spaces of (text x style x format spec x colour
policy) through str(), format(), f-strings, apply(), .fmt(), len(), repr
round trip; plus a BFS over the Style state space under the chainable
modifier methods (same state by different method orders must be equal).
"""
from __future__ import annotations

import itertools
import os
import re
import sys

PROPERTY = 'C20'
LEVEL = 'model_checking'

SGR = re.compile(r'\x1b\[[0-9;]*m')
MODS = ['bold', 'dim', 'italic', 'underline', 'blink', 'inverse', 'hidden', 'strikethrough']
SPECS = ['', '>5', '<5', '^6', '*^7', '.1', '>5.1', '3', '}<6', '{^5', ':>4']
TCHARS = ['a', ' ', '{', '}', ':', 'é', '日', '́', '\\', 'e']
CLEAN = re.compile(r'^[^{}:\\\'"\x00-\x1f]*$')


def strip(s: str) -> str:
    return SGR.sub('', s)


def texts(maxlen):
    out = []
    for n in range(1, maxlen + 1):
        for t in itertools.product(TCHARS, repeat=n):
            out.append(''.join(t))
    # line boundaries of every kind, in every position of a short text (styled output wraps the whole text once)
    for n in range(1, 4):
        for t in itertools.product(['a', '\n', '\r', '\r\n', '\u2028', '\x0b', '\x85'], repeat=n):
            if any(c != 'a' for c in t):
                out.append(''.join(t))
    return out + ['hello world', 'a{b}:c', 'wide日本語text', 'x' * 12, 'one\ntwo', 'one\ntwo\n']


def colours():
    from tatsu.ztyle.style import RGB
    return [None, 0, 7, 8, 15, 16, 255, RGB(1, 2, 3)]


def mk(text, fg, bg, mods, color, fmt=None):
    from tatsu.ztyle.style import Style
    kw = {m: True for m in mods}
    if fg is not None:
        kw['fg'] = fg
    if bg is not None:
        kw['bg'] = bg
    return Style(text, fmt=fmt, color=color, **kw)


def attrs(s):
    return (s._fg, s._bg) + tuple(getattr(s, '_' + m) for m in MODS) + (s._fmt,)


def check_one(m, text, fg, bg, mods, spec, tag):
    from tatsu.ztyle.style import Color, Style
    from tatsu.util.tty import descape, visual_len

    desc = dict(text=text, fg=str(fg), bg=str(bg), mods=list(mods), spec=spec)
    want = format(text, spec)
    styled = bool(mods) or fg is not None or bg is not None
    for enabled in (True, False):
        color = Color.always() if enabled else Color.never()
        s = mk(text, fg, bg, mods, color)
        m.add('evaluations')
        out = str(s)
        if strip(out) != text:
            m.violation(f'str-alters-text/{tag}', enabled=enabled, got=out, **desc)
        if not enabled and '\x1b' in out:
            m.violation(f'escape-when-disabled/str/{tag}', got=out, **desc)
        if enabled and styled and '\x1b' not in out:
            m.violation(f'no-escape-when-enabled/{tag}', got=out, **desc)
        if len(s) != len(text):
            m.violation(f'len-differs/{tag}', enabled=enabled, got=len(s), want=len(text), **desc)
        for route, f in (('format', lambda: format(s, spec)), ('fstring', lambda: f'{s:{spec}}'),
                         ('fmt-method', lambda: str(s.fmt(spec))), ('call-fmt', lambda: str(s(text, fmt=spec)))):
            try:
                o = f()
            except Exception as e:  # noqa
                m.violation(f'{route}-raises/{type(e).__name__}/{tag}', enabled=enabled, **desc)
                continue
            m.add('evaluations')
            if not spec and route in ('fmt-method', 'call-fmt'):
                pass
            if strip(o) != want:
                sig = f'{route}-alters-text/{tag}'
                if enabled and styled and spec and route in ('format', 'fstring'):
                    sig = f'format-spec-applied-to-escaped-text/{route}'
                m.violation(sig, enabled=enabled, got=o, want=want, **desc)
            elif not enabled and '\x1b' in o:
                m.violation(f'escape-when-disabled/{route}/{tag}', got=o, **desc)
            elif enabled and styled and o.count('\x1b[0m') > 1:
                m.violation(f'escape-emitted-twice/{route}/{tag}', got=o, **desc)
        o = s.apply('other text')
        if strip(o) != 'other text' or (not enabled and '\x1b' in o):
            m.violation(f'apply-alters-text/{tag}', enabled=enabled, got=o, **desc)
        if descape(out) != strip(out) or visual_len(out) != len(strip(out)):
            m.violation(f'descape-disagrees/{tag}', got=descape(out), **desc)
        # with a stored format the visible length is the formatted length, and every rendering route applies it
        sf = s.fmt(spec) if spec else s
        if spec:
            for route, f in (('stored-str', lambda: str(sf)), ('stored-format-empty', lambda: format(sf, '')), ('stored-fstring', lambda: f'{sf}'),
                             ('stored-str-format', lambda: '{}'.format(sf)), ('stored-constructor', lambda: str(mk(text, fg, bg, mods, color, fmt=spec)))):
                try:
                    o = f()
                except Exception as e:  # noqa
                    m.violation(f'{route}-raises/{type(e).__name__}/{tag}', enabled=enabled, **desc)
                    continue
                m.add('evaluations')
                if strip(o) != want:
                    m.violation(f'{route}-ignores-stored-format/{tag}', enabled=enabled, got=o, want=want, **desc)
        try:
            if len(sf) != len(want):
                m.violation(f'len-with-fmt-differs/{tag}', enabled=enabled, got=len(sf), want=len(want), **desc)
        except Exception as e:  # noqa
            m.violation(f'len-raises/{type(e).__name__}/{tag}', **desc)
    # repr round trip
    s = mk(text, fg, bg, mods, Color.always(), fmt=spec or None)
    try:
        back = Style.from_raw(repr(s))
    except Exception as e:  # noqa
        m.violation(f'repr-roundtrip-raises/{type(e).__name__}/{tag}', **desc)
        return
    m.add('evaluations')
    clean = bool(CLEAN.match(text)) and text.isprintable()   # C1 controls and line/paragraph separators count as control characters
    if clean or not spec:
        # the attributes must survive; for unclean text with a format the f{..:..} wrapper is ambiguous
        a, b = attrs(s), attrs(back)
        if not clean:
            a, b = a[:-1], b[:-1]
        if a != b:
            m.violation(f'repr-roundtrip-attributes/{tag}', got=[str(x) for x in b], want=[str(x) for x in a], **desc)
    if clean and back.value != text:
        m.violation(f'repr-roundtrip-text/{tag}', got=back.value, **desc)
    if styled or spec:
        m.add('nontrivial')


def shard_styles(m, items):
    for fg, bg, mods in items:
        for text in ('ab c', 'é日'):
            for spec in ('', '>5', '.1'):
                check_one(m, text, fg, bg, mods, spec, 'styles')


def shard_texts(m, items):
    from tatsu.ztyle.style import RGB
    styles = [(None, None, ()), (1, None, ()), (None, 4, ('bold',)), (15, 16, ('dim', 'italic')), (255, RGB(1, 2, 3), ('underline',)),
              (RGB(1, 2, 3), 8, MODS), (None, None, ('hidden', 'strikethrough', 'blink', 'inverse'))]
    for text in items:
        for spec in SPECS:
            for fg, bg, mods in styles:
                check_one(m, text, fg, bg, tuple(mods), spec, 'texts')
        if len(text) > 2:
            m.sample({'text': text, 'specs': SPECS, 'styles': len(styles)})


def policy_lattice(rc):
    """Colour policy: explicit enable > NO_COLOR > FORCE_COLOR > isatty."""
    from tatsu.ztyle.style import Color, Style

    class FakeOut:
        def __init__(self, tty):
            self.tty = tty

        def isatty(self):
            return self.tty

        def write(self, *_a):
            return 0

        def flush(self):
            pass

    saved_env = {k: os.environ.get(k) for k in ('NO_COLOR', 'FORCE_COLOR')}
    saved_out = sys.stdout
    n = 0
    try:
        for force in (None, True, False):
            for no_color in (None, '', '1'):
                for force_color in (None, '', '1'):
                    for tty in (True, False):
                        for k, v in (('NO_COLOR', no_color), ('FORCE_COLOR', force_color)):
                            if v is None:
                                os.environ.pop(k, None)
                            else:
                                os.environ[k] = v
                        sys.stdout = FakeOut(tty)
                        try:
                            c = Color(force)
                            out = str(Style('txt', bold=True, fg=1, color=c))
                        finally:
                            sys.stdout = saved_out
                        want = force if force is not None else (False if no_color is not None else (True if force_color is not None else tty))
                        n += 1
                        rc.add('evaluations')
                        rc.add('nontrivial')
                        got = '\x1b' in out
                        if got != want or strip(out) != 'txt':
                            rc.violation('colour-policy', force=force, NO_COLOR=no_color, FORCE_COLOR=force_color, tty=tty, got=out, want_colour=want)
    finally:
        sys.stdout = saved_out
        for k, v in saved_env.items():
            if v is None:
                os.environ.pop(k, None)
            else:
                os.environ[k] = v
    rc.coverage['policy_combinations'] = n


def error_rendering(rc):
    """The users of styling named by the property: rendered parse errors obey the colour policy they are
    given, whatever the environment says, and colouring them does not alter their text."""
    import tatsu
    from tatsu.exceptions import FailedParse
    from tatsu.ztyle.style import Color

    class FakeOut:
        def __init__(self, tty):
            self.tty = tty

        def isatty(self):
            return self.tty

        def write(self, *_a):
            return 0

        def flush(self):
            pass

    model = tatsu.compile("start: 'a' item $ ;\n\nitem: 'b' | 'c' ;\n")
    errs = []
    for text in ('a x', 'a b b', '', 'a\n\n  q'):
        try:
            model.parse(text)
        except FailedParse as e:
            errs.append((text, e))
    # failures on every line up to 15 and around 100: the report shows the lines before it with their numbers in a gutter
    # whose width follows the largest number (9 -> 10, 99 -> 100 change it)
    lines_model = tatsu.compile("start: {'a' | 'b' 'c'}+ $ ;\n")
    for k in list(range(1, 16)) + [98, 99, 100, 101, 102, 103, 104, 105]:
        text = ''.join(('a a\n' if i % 3 else ' b c  \n') for i in range(1, k)) + 'a  x a\n' + 'a\n' * (k % 3)
        try:
            lines_model.parse(text)
        except FailedParse as e:
            errs.append((text, e))
    saved_env = {k: os.environ.get(k) for k in ('NO_COLOR', 'FORCE_COLOR')}
    saved = (sys.stdout, sys.stderr)
    n = 0
    try:
        for text, e in errs:
            for no_color, force_color, out_tty, err_tty in itertools.product((None, '1'), (None, '1'), (True, False), (True, False)):
                for k, v in (('NO_COLOR', no_color), ('FORCE_COLOR', force_color)):
                    if v is None:
                        os.environ.pop(k, None)
                    else:
                        os.environ[k] = v
                sys.stdout, sys.stderr = FakeOut(out_tty), FakeOut(err_tty)
                try:
                    plain_txt = e.render(color=Color.never())
                    coloured = e.render(color=Color.always())
                finally:
                    sys.stdout, sys.stderr = saved
                n += 1
                rc.add('evaluations', 2)
                rc.add('nontrivial')
                env = dict(NO_COLOR=no_color, FORCE_COLOR=force_color, stdout_tty=out_tty, stderr_tty=err_tty)
                if '\x1b' in plain_txt:
                    rc.violation('error-rendering/escape-with-colour-disabled', input=text, env=env, got=plain_txt[:300])
                if strip(coloured) != strip(plain_txt):
                    rc.violation('error-rendering/colour-alters-text', input=text, env=env, coloured=strip(coloured)[:300], plain=plain_txt[:300])
                if '\x1b' not in coloured:
                    rc.violation('error-rendering/no-escape-with-colour-forced', input=text, env=env)
    finally:
        sys.stdout, sys.stderr = saved
        for k, v in saved_env.items():
            if v is None:
                os.environ.pop(k, None)
            else:
                os.environ[k] = v
    rc.coverage['error_renderings'] = n


def method_bfs(rc, depth):
    """States = attribute tuples; transitions = chainable modifier methods."""
    from tatsu.ztyle.style import Color, Style, RGB

    base = Style('txt', color=Color.always())
    methods = [(m, ()) for m in MODS] + [('red', ()), ('blue_bg', ()), ('bright_green', ()), ('fg', (200,)), ('bg', (None,)),
                                          ('fg_rgb', (9, 8, 7)), ('fg', (None,)), ('fmt', ('>6',))]
    seen: dict = {}
    frontier = [((), base)]
    trans = 0
    for _d in range(depth):
        nxt = []
        for hist, s in frontier:
            for name, args in methods:
                t = getattr(s, name)(*args)
                trans += 1
                if attrs(s) != attrs(getattr(base, '__class__')('txt', color=base.color, **{k.lstrip('_'): getattr(s, k) for k in ('_fg', '_bg', '_fmt') }, **{mm: getattr(s, '_' + mm) for mm in MODS})):
                    rc.violation('bfs/receiver-mutated', history=hist, method=name)
                key = attrs(t)
                h2 = hist + (name,)
                if t.value != 'txt' or strip(str(t)) != format('txt', t._fmt or ''):
                    rc.violation('bfs/text-altered', history=h2, got=str(t))
                if key in seen:
                    other_hist, other = seen[key]
                    if str(other) != str(t) or repr(other) != repr(t):
                        rc.violation('bfs/same-state-different-rendering', a=other_hist, b=h2, ra=repr(other), rb=repr(t))
                else:
                    seen[key] = (h2, t)
                    nxt.append((h2, t))
        frontier = nxt
    rc.add('states', len(seen))
    rc.add('transitions', trans)
    rc.add('evaluations', trans)
    rc.coverage['style_bfs'] = {'states': len(seen), 'transitions': trans, 'depth': depth}


def run(rc):
    quick = rc.tier == 'quick'
    cols = colours()
    modsets = [tuple(m for i, m in enumerate(MODS) if bits >> i & 1) for bits in range(256)]
    styles = [(fg, bg, ms) for fg in cols for bg in cols for ms in modsets]
    rc.pmap(shard_styles, styles)
    rc.pmap(shard_texts, texts(3 if quick else 4))
    policy_lattice(rc)
    error_rendering(rc)
    method_bfs(rc, 4 if quick else 5)
    c = rc.total.counts
    rc.rule = ('(a) styles = fg,bg in {none,0,7,8,15,16,255,RGB} x all 256 modifier subsets x 2 texts x 3 specs; (b) all texts of length <= ' + ('2' if quick else '3') + ' over {a,space,{,},:,e-acute,CJK,combining,backslash,e} + longer ones x 8 format specs x 7 styles; '
               'each through str/format/f-string/.fmt()/call/apply/len/repr round trip with colour on and off; (c) 54 colour-policy combinations and rendered parse errors under explicit policies x environment x tty '
               '(explicit x NO_COLOR x FORCE_COLOR x tty); (d) BFS over chainable modifier methods; non-trivial = styled or formatted case')
    rc.coverage.update({'states': c.get('states', 0), 'transitions': c.get('transitions', 0),
                        'traces_validated_against_impl': c.get('evaluations', 0)})
    rc.assumptions += ['escape stripping oracle: the SGR regex ESC[ digits/semicolons m; tatsu.util.tty.descape is compared against it',
                       'texts contain no ESC; repr round trip of the text is required only for texts free of braces, colons, backslashes, quotes and control characters']


def replay(data):
    """Re-runs the checks of one recorded (text, colours, modifiers, format) case."""
    from ..runner import Merge
    d = data['detail']
    if 'text' not in d or 'mods' not in d:
        print('replay: nothing executable in this record')
        return 1

    def colour(x):
        from tatsu.ztyle.style import RGB
        if x in (None, 'None'):
            return None
        mm = re.match(r'RGB\((\d+), (\d+), (\d+)\)', str(x)) or re.match(r'.*r=(\d+).*g=(\d+).*b=(\d+)', str(x))
        return RGB(*map(int, mm.groups())) if mm else int(x)
    m = Merge()
    check_one(m, d['text'], colour(d.get('fg')), colour(d.get('bg')), tuple(d['mods']), d.get('spec', ''), 'replay')
    for v in m.violations:
        print(v['signature'], str(v['detail'])[:300])
    if m.violations:
        print('VIOLATION property=C20 replay=reproduced')
    return 1 if m.violations else 0
