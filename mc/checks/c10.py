"""C10 — API results depend only on the arguments, not on earlier or concurrent calls.

Histories: every sequence of API calls up to a length bound over a pool of
grammars/options, each history executed in a forked pristine child; every
call's observation must equal the observation of the same call executed first
in a pristine child.  Parses must not alter the model or its configuration.
Schedules: 2 threads parsing on one shared, not yet optimised model under a
baton scheduler (sys.settrace line events in functions touching shared state),
all interleavings up to a preemption bound; every thread's result must equal
the sequential result.
"""
from __future__ import annotations

import hashlib
import itertools
import sys
import threading

from ..explore import Chooser, explore, split_prefixes
from ..forkrun import in_child

PROPERTY = 'C10'
LEVEL = 'model_checking'

G1 = "start::Pair: l:'a' r:'b' | c:'c' ;\n"
G2 = "start::Pair::Base: x:'a' ;\n"
G3 = "@@ignorecase :: False\n\nstart: {word}+ $ ;\n\nword::Word: /[a-c]+/ ;\n"
G4 = "start: host:'h' port:'p' c:`{host}:{port}` ;\n"
G5 = "start: x:'z' reply:`pong {port}` n:`len(x)` ;\n"


class Tag:
    def _default(self, ast, *a, **k):
        return ('T', ast)


class Counting:
    """Value-like semantics object: every instance equals every other; wraps values with its own call count."""

    def __init__(self):
        self.n = 0

    def __eq__(self, other):
        return type(other) is type(self)

    def __hash__(self):
        return 11

    def _default(self, ast, *a, **k):
        self.n += 1
        return ('N', self.n, ast)


# call alphabet: (kind, args...)
CALLS = [
    ('compile-parse', 'G1', (), 'a b', ()),
    ('compile-parse', 'G1', (('asmodel', True),), 'a b', ()),
    ('compile-parse', 'G1', (('semantics', 'tag'),), 'a b', ()),
    ('compile-name', 'G1', (('name', 'Other'),)),
    ('compile-parse', 'G1', (), 'A B', (('ignorecase', True),)),
    ('compile-parse', 'G1', (), 'x', ()),
    ('tatsu-parse', 'G1', 'a b', ()),
    ('tatsu-parse', 'G1', 'a b', (('asmodel', True),)),
    ('tatsu-parse', 'G1', 'c', (('semantics', 'tag'),)),
    ('codegen', 'G1'),
    ('generated', 'G1', 'a b', ()),
    ('generated', 'G1', 'x', ()),
    ('generated', 'G1', 'a b', (('asmodel', True),)),
    ('compile-parse', 'G2', (('asmodel', True),), 'a', ()),
    ('compile-parse', 'G3', (), 'ab c', ()),
    ('compile-parse', 'G3', (('asmodel', True),), 'ab c', ()),
    ('model-parse', 'G1', 'a b', ()),      # on one persistent model object per history
    ('model-parse', 'G1', 'x', ()),
    ('model-parse', 'G1', 'c', (('start', 'start'),)),
    # a second persistent model: semantics attached to it (m.semantics = S) and parsed; whatever was done to
    # that object before, the result must be that of compile(G1, semantics=S).parse(t) — call 2
    ('model2-parse', 'G1', 'a b', ()),
    ('model2-attach-parse-detach', 'G1', 'a b', ()),
    ('compile-parse', 'G4', (), 'h p', ()),      # constants: names bound by one parse ...
    ('compile-parse', 'G5', (), 'z', ()),        # ... must be invisible to another grammar's constants
    ('compile-parse', 'G1', (('semantics', 'counting'),), 'a b', ()),   # a fresh object, equal to the ones used before
    ('model-parse', 'G1', 'a b', (('semantics', 'counting'),)),
    # per-call settings of a parse that fails must not stay on the persistent generated parser object
    ('generated', 'G1', 'x', (('whitespace', ''), ('nameguard', False))),
    # model-building options other than asmodel= / semantics= (they, too, must keep the call out of the compile cache)
    ('compile-parse', 'G1', (('basetype', 'node'),), 'a b', ()),
]
SAME_AS = {20: 2}   # call index -> call index whose first observation it must equal
REDUCED = [0, 1, 2, 5, 7, 10, 12, 13, 16, 17, 19, 20, 21, 22, 23, 24, 25, 26]
GRAMMARS = {'G1': G1, 'G2': G2, 'G3': G3, 'G4': G4, 'G5': G5}


def observe_value(v):
    from tatsu.objectmodel import Node
    from tatsu.util.asjson import asjson
    head = ('node', type(v).__name__, [c.__name__ for c in type(v).__mro__[1:4]]) if isinstance(v, Node) else ('value', type(v).__name__)
    return head + (_stable(asjson(v)),)


def _stable(j):
    import json
    return json.dumps(j, sort_keys=True, default=repr)


def snapshot(model):
    from tatsu.util.asjson import asjson
    cfg = model.config
    c = {k: (type(v).__name__ if k == 'semantics' and v is not None else repr(v)) for k, v in cfg.asdict().items()}
    return hashlib.sha1((_stable(asjson(model)) + _stable(c)).encode()).hexdigest()


def run_history(hist):
    """Executed in a pristine forked child."""
    import contextlib
    import io
    import tatsu
    from tatsu.exceptions import ParseException

    store = {}
    out = []

    def opts(o):
        d = dict(o)
        if d.get('semantics') == 'tag':
            d['semantics'] = Tag()
        if d.get('semantics') == 'counting':
            d['semantics'] = Counting()
        if d.get('basetype') == 'node':
            from tatsu.objectmodel import Node
            d['basetype'] = Node
        return d

    for idx in hist:
        call = CALLS[idx]
        kind = call[0]
        try:
            with contextlib.redirect_stderr(io.StringIO()):
                if kind == 'compile-parse':
                    _k, g, co, text, po = call
                    m = tatsu.compile(GRAMMARS[g], **opts(co))
                    obs = observe_value(m.parse(text, **opts(po)))
                elif kind == 'compile-name':
                    _k, g, co = call
                    m = tatsu.compile(GRAMMARS[g], **opts(co))
                    obs = ('model', type(m).__name__, m.name, [r.name for r in m.rules])
                elif kind == 'tatsu-parse':
                    _k, g, text, po = call
                    obs = observe_value(tatsu.parse(GRAMMARS[g], text, **opts(po)))
                elif kind == 'codegen':
                    src = tatsu.to_python_sourcecode(GRAMMARS[call[1]], name='Gen')
                    obs = ('source', hashlib.sha1(src.encode()).hexdigest())
                elif kind == 'generated':
                    _k, g, text, po = call
                    if ('parser', g) not in store:
                        src = tatsu.to_python_sourcecode(GRAMMARS[g], name='Gen')
                        ns = {}
                        exec(compile(src, '<gen>', 'exec'), ns)
                        store[('parser', g)] = ns['GenParser']()     # one persistent parser object per history
                    obs = observe_value(store[('parser', g)].parse(text, **opts(po)))
                elif kind == 'model-parse':
                    _k, g, text, po = call
                    if ('model', g) not in store:
                        store[('model', g)] = tatsu.compile(GRAMMARS[g] + '\n# persistent\n')
                    m = store[('model', g)]
                    before = snapshot(m)
                    try:
                        obs = observe_value(m.parse(text, **opts(po)))
                    except ParseException as e:
                        obs = ('raised', type(e).__name__)
                    after = snapshot(m)
                    obs = (obs, 'model-unchanged' if before == after else 'MODEL-CHANGED')
                elif kind in ('model2-parse', 'model2-attach-parse-detach'):
                    _k, g, text, po = call
                    if ('model2', g) not in store:
                        store[('model2', g)] = tatsu.compile(GRAMMARS[g] + '\n# persistent 2\n')
                    m = store[('model2', g)]
                    if kind == 'model2-parse':
                        obs = observe_value(m.parse(text))
                    else:
                        m.semantics = Tag()
                        try:
                            obs = observe_value(m.parse(text))
                        finally:
                            m.semantics = None
                else:
                    raise AssertionError(kind)
        except ParseException as e:
            obs = ('raised', type(e).__name__)
        except Exception as e:  # noqa
            obs = ('raised-foreign', type(e).__name__, str(e)[:80])
        out.append(obs)
    return out


def history_shard(m, items):
    first = {}
    for i in range(len(CALLS)):
        r = in_child(run_history, (i,))
        first[i] = r[1][0] if r[0] == 'ok' else ('harness-error', r[1])
        if isinstance(first[i], tuple) and len(first[i]) == 2 and first[i][1] == 'MODEL-CHANGED':
            m.violation(f'history/parse-alters-model/{CALLS[i][2]!r}', call=str(CALLS[i]))
    for hist in items:
        r = in_child(run_history, hist)
        m.add('evaluations', len(hist))
        m.add('transitions', len(hist))
        m.add('states')
        if r[0] != 'ok':
            m.violation('history/harness-error', history=[str(CALLS[i]) for i in hist], error=r[1])
            continue
        if len(hist) > 1:
            m.add('nontrivial')
        for pos, (i, got) in enumerate(zip(hist, r[1])):
            if i in SAME_AS and got != first[SAME_AS[i]]:
                m.violation('history/attached-semantics-not-used', history=[str(CALLS[j]) for j in hist], position=pos,
                            got=str(got)[:300], want=str(first[SAME_AS[i]])[:300])
            elif i in SAME_AS:
                continue
            if got != first[i]:
                sig = classify_history(hist, pos, got, first[i])
                m.violation(sig, history=[str(CALLS[j]) for j in hist], position=pos, got=str(got)[:300], when_run_first=str(first[i])[:300])
            if isinstance(got, tuple) and len(got) == 2 and got[1] == 'MODEL-CHANGED':
                m.violation('history/parse-alters-model', history=[str(CALLS[j]) for j in hist], position=pos)


def classify_history(hist, pos, got=None, first=None):
    """Signature of a history-dependence.  Two recorded root causes are recognised by their
    exact symptom; anything else is reported under the pair (affected call, earlier calls)."""
    c = CALLS[hist[pos]]
    earlier = [CALLS[i] for i in hist[:pos]]

    def opts_of(x):
        return dict(x[2]) if x[0] in ('compile-parse', 'compile-name') else (dict(x[3]) if x[0] in ('tatsu-parse', 'generated', 'model-parse') else {})

    def grammar_of(x):
        return x[1]
    if got is not None and first is not None and got[0] == 'node' and first[0] == 'node' and got[1] == first[1] and got[2] != first[2] and got[3:] == first[3:]:
        # same class name, same content, other bases: an earlier grammar synthesised a class of that name
        if any(grammar_of(e) != grammar_of(c) and (opts_of(e).get('asmodel') or opts_of(e).get('basetype')) for e in earlier):
            return 'history/synthesized-class-registry-keyed-by-name-only'

    def brief(x):
        return f"{x[0]}({x[1]},{opts_of(x)})"
    return 'history/' + brief(c) + ' after ' + ' + '.join(sorted({brief(e) for e in earlier}))


# ------------------------------------------------------------------ threads

WHITELIST = {
    ('tatsu/peg/base.py', 'optimized'), ('tatsu/peg/base.py', 'parse'), ('tatsu/peg/base.py', '_do_parse'),
    ('tatsu/peg/base.py', 'newctx'), ('tatsu/peg/base.py', 'new_parse_config'), ('tatsu/peg/base.py', 'ruleinfo'),
    ('tatsu/peg/base.py', '_parse_rhs'), ('tatsu/contexts/engine.py', 'bound'), ('tatsu/contexts/engine.py', 'parse'),
    ('tatsu/contexts/core.py', '_initialize_caches'), ('tatsu/contexts/core.py', '_reset'), ('tatsu/objectmodel/synth.py', 'synthesize'),
    ('tatsu/peg/base.py', 'initialize'), ('tatsu/peg/base.py', 'semantics'),
}


# a wider set, explored with one preemption: state export used by copy() (Grammar.optimized copies the model while
# another thread's first parse is still attaching cached attributes), and the check-then-create paths of model building
WHITELIST_WIDE = WHITELIST | {
    ('tatsu/util/asjson.py', 'is_public'), ('tatsu/util/asjson.py', '__pub__'), ('tatsu/objectmodel/basenode.py', '__getstate__'),
    ('tatsu/objectmodel/basenode.py', '__pub__'), ('tatsu/objectmodel/builder.py', '_get_constructor'),
    ('tatsu/objectmodel/builder.py', '_register_constructor'), ('tatsu/objectmodel/builder.py', '_instanceof'),
}


class Baton:
    """Cooperative scheduler: exactly one of the registered threads runs; at every traced line
    of a whitelisted function the running thread asks the chooser who goes on."""

    def __init__(self, chooser, n, whitelist=None):
        self.ch = chooser
        self.whitelist = whitelist if whitelist is not None else WHITELIST
        self.sems = [threading.Semaphore(0) for _ in range(n)]
        self.done = [False] * n
        self.current = 0
        self.points = 0
        self.local = threading.local()

    def tracer(self, frame, event, arg):
        co = frame.f_code
        fn = co.co_filename
        key = None
        i = fn.rfind('tatsu/')
        if i >= 0:
            key = (fn[i:], co.co_name)
        if key in self.whitelist:
            return self.line_tracer
        return None

    def line_tracer(self, frame, event, arg):
        if event == 'line':
            self.point()
        return self.line_tracer

    def point(self):
        me = self.local.idx
        self.points += 1
        others = [i for i in range(len(self.sems)) if i != me and not self.done[i]]
        if not others:
            return
        k = self.ch.pick(1 + len(others), 'switch?')
        if k == 0:
            return
        nxt = others[k - 1]
        self.current = nxt
        self.sems[nxt].release()
        self.sems[me].acquire()

    def run(self, bodies):
        results = [None] * len(bodies)

        def worker(i):
            self.local.idx = i
            self.sems[i].acquire()
            sys.settrace(self.tracer)
            try:
                try:
                    results[i] = ('ok', bodies[i]())
                except BaseException as e:  # noqa
                    results[i] = ('raised', type(e).__name__, str(e)[:120])
            finally:
                sys.settrace(None)
                self.done[i] = True
                rest = [j for j in range(len(self.sems)) if not self.done[j]]
                if rest:
                    self.current = rest[0]
                    self.sems[rest[0]].release()

        ts = [threading.Thread(target=worker, args=(i,)) for i in range(len(bodies))]
        for t in ts:
            t.start()
        self.sems[0].release()
        for t in ts:
            t.join(60)
        if any(t.is_alive() for t in ts):
            return ('deadlock',)
        return tuple(results)


_SERIAL = itertools.count(1)


def fresh_model(kind):
    """A fresh, never parsed-with model built from the real classes (cheap)."""
    from tatsu import peg
    if kind.startswith('plain'):
        word = peg.Rule(name='word', exp=peg.Choice(options=[peg.Option(exp=peg.Token(token='a')), peg.Option(exp=peg.Token(token='b'))]))
        start = peg.Rule(name='start', exp=peg.Sequence(sequence=[peg.Named(name='w', exp=peg.PositiveClosure(exp=peg.Call(name='word'))), peg.EOF()]))
        return peg.Grammar('T', [start, word])
    # class names nobody has synthesized yet (the first use of a name is the racy one); observations drop the serial
    k = next(_SERIAL) if kind.startswith('typed-shared') else ''
    word = peg.Rule(name='word', params=(f'Word{k}',), exp=peg.Named(name='t', exp=peg.Pattern(pattern='[ab]')))
    start = peg.Rule(name='start', params=(f'Doc{k}',), exp=peg.Sequence(sequence=[peg.Named(name='w', exp=peg.PositiveClosure(exp=peg.Call(name='word'))), peg.EOF()]))
    model = peg.Grammar('T', [start, word])
    if kind.startswith('typed-shared'):
        # one model-building semantics object on the model, shared by every thread (tatsu.compile(g, asmodel=True))
        from tatsu.semantics import ModelBuilderSemantics
        model.semantics = ModelBuilderSemantics()
    return model


def _noserial(obs):
    import re
    return tuple(re.sub(r'(Word|Doc)\d+', r'\1', x) if isinstance(x, str) else
                 ([re.sub(r'(Word|Doc)\d+', r'\1', y) if isinstance(y, str) else y for y in x] if isinstance(x, list) else x) for x in obs)


def _thread_setup(kind, inputs):
    def mkbodies(model):
        def body(text, asmodel):
            def f():
                v = model.parse(text, asmodel=asmodel) if asmodel else model.parse(text)
                return _noserial(observe_value(v))
            return f
        return [body(t, kind == 'typed') for t in inputs]

    def run(ch, stats=None):
        model = fresh_model(kind)
        bt = Baton(ch, len(inputs), WHITELIST_WIDE if kind.endswith('-wide') else WHITELIST)
        r = bt.run(mkbodies(model))
        if stats is not None:
            stats['points'] = max(stats.get('points', 0), bt.points)
        return r
    return mkbodies, run


def thread_roots(kind, inputs, bound):
    """Partition of the schedule tree by the position of the first preemption."""
    _mk, run = _thread_setup(kind, inputs)
    warmup(kind, inputs)
    ch = Chooser()
    run(ch)
    roots = [None]      # None = the default schedule alone
    if bound is None or bound >= 1:
        for i, ar in enumerate(ch.arity):
            for alt in range(1, ar):
                roots.append((0,) * i + (alt,))
    return roots


_WARM = set()


def warmup(kind, inputs):
    """Process-wide lazily filled caches (lru caches, cached properties of classes) change how many
    lines run in the traced functions; fill them before any schedule is recorded or replayed so
    that every execution sees the same scheduling points."""
    if (kind, inputs) in _WARM:
        return
    mkbodies, run = _thread_setup(kind, inputs)
    for _ in range(2):
        for b in mkbodies(fresh_model(kind)):
            try:
                b()
            except BaseException:  # noqa
                pass
        run(Chooser())
    _WARM.add((kind, inputs))


def thread_case(m, kind, inputs, bound, root=()):
    mkbodies, run = _thread_setup(kind, inputs)
    warmup(kind, inputs)
    # sequential reference
    seq_model = fresh_model(kind)
    want = []
    for b in mkbodies(seq_model):
        try:
            want.append(('ok', b()))
        except BaseException as e:  # noqa
            want.append(('raised', type(e).__name__, str(e)[:120]))
    want = tuple(want)
    outcomes = set()
    n = 0
    stats = {'points': 0}
    for choices, ch, obs in explore(lambda c: run(c, stats), bound=bound, root=root or (), max_runs=1 if root is None else None):
        n += 1
        m.add('evaluations')
        m.add('transitions', len(choices))
        if ch.deviations:
            m.add('nontrivial')
        outcomes.add(str(obs))
        if obs != want:
            sig = f'schedule/result-differs-from-sequential/{kind}'
            text = str(obs)
            # recorded findings: races of the *first* parses on a shared model
            if 'dictionary changed size during iteration' in text:
                sig = 'schedule/concurrent-first-parses/model-copied-while-another-thread-attaches-cached-attributes'
            elif 'Conflict for constructor name' in text:
                sig = 'schedule/concurrent-first-parses/node-class-synthesized-twice'
            m.violation(sig, kind=kind, inputs=list(inputs), preemptions=[i for i, c in enumerate(choices) if c],
                        got=str(obs)[:400], sequential=str(want)[:400])
    m.add('states', n)
    if root is None:
        m.sample({'threads': len(inputs), 'model': kind, 'inputs': list(inputs), 'scheduling_points': stats['points'],
                  'preemption_bound': bound, 'distinct_outcomes': len(outcomes)})
    m.note('thread_outcomes', (kind, tuple(inputs), tuple(sorted(outcomes))[:3].__len__()))


def thread_shard(m, items):
    for kind, inputs, bound, root in items:
        thread_case(m, kind, inputs, bound, root)


def free_running(rc):
    """Binds the scheduler to reality: same bodies, real preemption; decides nothing."""
    old = sys.getswitchinterval()
    sys.setswitchinterval(1e-6)
    bad = 0
    try:
        for rep in range(30):
            model = fresh_model('plain')
            res = [None, None]

            def w(i, t):
                try:
                    res[i] = observe_value(model.parse(t))
                except BaseException as e:  # noqa
                    res[i] = ('raised', type(e).__name__)
            ts = [threading.Thread(target=w, args=(0, 'a b a')), threading.Thread(target=w, args=(1, 'b b'))]
            for t in ts:
                t.start()
            for t in ts:
                t.join()
            if res != [('value', {'w': ['a', 'b', 'a']}), ('value', {'w': ['b', 'b']})]:
                bad += 1
    finally:
        sys.setswitchinterval(old)
    rc.coverage['free_running_conformance'] = {'runs': 30, 'outcomes_outside_explored_set': bad}


HASHSEED_SCRIPT = r'''
import json, sys
import tatsu
out = []
m = tatsu.compile("start = left:num op:'+' right:num [extra:num] $ ; num = value:/\\d+/ ;")
out.append(json.dumps(m.parse('1+2')))                      # key order as produced (no sort_keys)
out.append(repr(m.parse('1+2')))
m2 = tatsu.compile("start = x:'a' | y:'b' z:'c' | w+:'d' {w+:'d'} v:'e' ;")
out.append(json.dumps(m2.parse('b c')))
out.append(json.dumps(m2.parse('d d e')))
g = "start = a | _a_ ; a = 'x' `plain` ; _a_ = 'x' `sunder` ;"
src = tatsu.to_python_sourcecode(g, name='U'); ns = {}; exec(compile(src, '<u>', 'exec'), ns)
out.append(repr(ns['UParser']().parse('x', start='_a_')))
out.append(repr(ns['UParser']().parse('x', start='a')))
out.append(tatsu.compile(g).pretty())
try:
    tatsu.compile("start = alpha beta gamma delta ;")
    out.append('compiled')
except Exception as e:
    out.append(type(e).__name__ + ': ' + str(e))
print(json.dumps(out))
'''


def hashseed_part(rc):
    """"The same in a fresh process": fresh interpreters that differ only in PYTHONHASHSEED give the same results,
    including the order of keys in ASTs and the rule a start name resolves to."""
    import json
    import os
    import subprocess
    from ..runner import REPO
    outs = {}
    for seed in ('0', '1', '2', '3', '4', '5', '6', '7'):
        env = dict(os.environ, PYTHONHASHSEED=seed, PYTHONPATH=str(REPO))
        r = subprocess.run([sys.executable, '-c', HASHSEED_SCRIPT], env=env, capture_output=True, text=True, timeout=120)
        rc.add('evaluations', 8)
        rc.add('states')
        if r.returncode != 0:
            rc.violation('hashseed/script-failed', seed=seed, error=r.stderr[-300:])
            continue
        outs[seed] = json.loads(r.stdout.strip().splitlines()[-1])
    base = outs.get('0')
    for seed, o in outs.items():
        for i, (a, b) in enumerate(zip(base or [], o)):
            if a != b:
                rc.violation(f'hashseed/result-depends-on-hash-seed/{["ast-key-order", "ast-repr", "ast-key-order", "ast-key-order", "start-rule", "start-rule", "pretty", "error-message"][i]}',
                             seed=seed, with_seed_0=a, got=b)
    rc.coverage['hash_seeds_compared'] = len(outs)


def run(rc):
    hashseed_part(rc)
    quick = rc.tier == 'quick'
    n = len(CALLS)
    hists = [h for k in (1, 2) for h in itertools.product(range(n), repeat=k)]
    if quick:
        hists += list(itertools.product(REDUCED, repeat=3))
    else:
        hists += list(itertools.product(range(n), repeat=3))
    rc.pmap(history_shard, hists)
    rc.coverage['histories'] = len(hists)
    titems = [('plain', ('a b', 'b'), 2), ('typed', ('a b', 'b'), 1 if quick else 2), ('plain', ('a', 'x'), 1 if quick else 2), ('plain', ('a', 'b', 'a a'), 1),
              ('plain-wide', ('a b', 'b'), 1), ('typed-shared-wide', ('a b', 'b'), 1)]
    work = []
    for kind, inputs, bound in titems:
        for root in thread_roots(kind, inputs, bound):
            work.append((kind, inputs, bound, root))
    rc.coverage['thread_subtrees'] = len(work)
    rc.pmap(thread_shard, work, chunk=1)
    free_running(rc)
    c = rc.total.counts
    rc.rule = (f'histories: every sequence of length <= 2 over {n} API calls (compile/parse/tatsu.parse/codegen/generated parser/persistent model, with asmodel, '
               f'semantics, name, ignorecase, start, failing inputs, a second grammar reusing a class name) and every sequence of length 3 over '
               f'{"a reduced alphabet of " + str(len(REDUCED)) if quick else "all " + str(n)} calls, each in a pristine forked child, each call compared with '
               'the same call executed first; fresh interpreters under 8 hash seeds; threads: 2-3 threads parsing on one shared never-optimised model, all interleavings at line granularity in '
               f'{len(WHITELIST)} functions touching shared state up to a preemption bound (and in {len(WHITELIST_WIDE)} functions, incl. state export and model building, with one preemption); non-trivial = history of length > 1 / schedule with a preemption')
    rc.coverage.update({'states': c.get('states', 0), 'transitions': c.get('transitions', 0),
                        'traces_validated_against_impl': c.get('evaluations', 0)})
    rc.cap('thread schedules are explored up to a preemption bound (2; 3 for one configuration in the thorough tier), at line events of whitelisted functions only')
    rc.assumptions += ['a forked child of a process that has only imported tatsu is "a fresh process"',
                       'data races outside the whitelisted functions are invisible to the cooperative scheduler (a free-running pass of the same bodies is recorded, it decides nothing)']


def replay(data):
    """Re-runs a recorded history of public-API calls in a pristine child and compares the affected call with the
    same call run first."""
    d = data['detail']
    if 'history' not in d or 'position' not in d:
        from ..replay import replay_by_rerun
        return replay_by_rerun(sys.modules[__name__], data)
    names = [str(c) for c in CALLS]
    hist = tuple(names.index(h) for h in d['history'])
    r = in_child(run_history, hist)
    alone = in_child(run_history, (hist[d['position']],))
    for h in d['history']:
        print('  ', h)
    got = r[1][d['position']] if r[0] == 'ok' else r
    first = alone[1][0] if alone[0] == 'ok' else alone
    print('in history :', str(got)[:400])
    print('run first  :', str(first)[:400])
    if got != first:
        print('VIOLATION property=C10 replay=reproduced')
        return 1
    return 0
