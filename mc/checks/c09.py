"""C09 — whitespace, comments, nameguard and case rules are applied uniformly.

(a) layouts: for every accepted lexeme sequence of a grammar family, every
    assignment of whitespace/comment runs to every gap (leading, inner,
    trailing): AST invariant (token-only grammars) and equal to the reference
    evaluator (all grammars, including patterns and upper-case rules).
(b) token matching: tokens x following character classes x nameguard x
    namechars x ignorecase x case variants, given as directives and as
    parse-time settings, against the reference token matcher.
(c) layering: for each setting every combination of {absent, v1, v2} at the
    three places a user can say it (compile, directive, parse time): the
    effective behaviour must be that of the highest-precedence layer present.
"""
from __future__ import annotations

import itertools

from .. import gramspace as gs
from .. import impl
from ..refsem import Cfg, Ref, Undecided

PROPERTY = 'C09'
LEVEL = 'model_checking'

COMMENTS = r'\(\*.*?\*\)'
EOLC = r'#[^\n]*'
RUNS_FULL = [' ', '\t', '\n', '\r\n', '  ', '(*c*)', '#c\n', ' (*c*) #c\n ', '(*c*)(*d*)', '#c\n#d\n', '(*c*)#d\n']
RUNS_QUICK = [' ', '\n', '\t\r\n', '(*c*)', '#c\n', '(*c*)#d\n']


def T(s):
    return ('tok', s)


def C(n):
    return ('call', n)


DIRS = {'comments': COMMENTS, 'eol_comments': EOLC}

# (name, rules, lexemes, token_only)
LAYOUT_GRAMMARS = [
    ('tokens', [gs.Rule('start', ('seq', ('clo', ('alt', T('a'), T('+'), T('bc'))), ('eof',)))], ['a', '+', 'bc'], True),
    ('named', [gs.Rule('start', ('seq', ('named', 'l', C('item')), ('named', 'r', ('clo', ('seq', T('+'), C('item')))), ('eof',))),
               gs.Rule('item', ('alt', T('a'), T('bc')))], ['a', '+', 'bc'], True),
    ('const-void', [gs.Rule('start', ('seq', T('a'), ('const', 'k'), ('void',), ('opt', T('+')), T('a'), ('eof',)))], ['a', '+'], True),
    ('pattern-rule', [gs.Rule('start', ('seq', ('clo', ('alt', C('num'), T('+'))), ('eof',))), gs.Rule('num', ('pat', r'\d+'))], ['1', '22', '+'], False),
    ('pattern-inline', [gs.Rule('start', ('seq', T('a'), ('pat', r'\d+'), ('opt', T('+')), ('eof',)))], ['a', '1', '+'], False),
    ('upper', [gs.Rule('start', ('seq', ('clo', ('alt', C('NUM'), T('+'))), ('eof',))), gs.Rule('NUM', ('pat', r'\d+'))], ['1', '+'], False),
    ('upper-token', [gs.Rule('start', ('seq', T('a'), C('B'), ('eof',))), gs.Rule('B', T('b'))], ['a', 'b'], False),
    # skip-to over a target that is not a token: blanks and comments on the way are stepped over whole (the comment text `c`, `d` matches the target)
    ('skipto-upper', [gs.Rule('start', ('seq', T('a'), ('skipto', C('W')), T('+'), ('eof',))), gs.Rule('W', ('pat', r'\w+'))], ['a', 'x1', '+'], False),
    ('skipto-pattern', [gs.Rule('start', ('seq', ('clo', ('seq', ('skipto', ('pat', r'[a-z]\d?')), ('opt', T('+')))), ('eof',)))], ['x1', 'y', '+'], False),
]
# a second comment syntax whose patterns start with a name character (REM...; and --... with namechars '-')
ALT_DIRS = {'comments': r'REM[^;]*;', 'eol_comments': r'--[^\n]*', 'namechars': '-'}
ALT_RUNS = [' ', '\n', 'REM c;', '--c\n', 'REM c;--d\n', ' REM c; ']
ALT_GRAMMAR = ('alt-comments', [gs.Rule('start', ('seq', ('clo', ('alt', T('a'), T('+'), T('b-c'))), ('eof',)))], ['a', '+', 'b-c'], False)  # nameguard makes a comment that starts with a name character stick to a preceding name token: reference oracle only


def layout_items(tier):
    runs = RUNS_QUICK if tier == 'quick' else RUNS_FULL
    maxlex = 3
    items = []
    for name, rules, lexemes, token_only in LAYOUT_GRAMMARS:
        for n in range(0, maxlex + 1):
            for seq in itertools.product(lexemes, repeat=n):
                items.append((name, seq, 'default'))
                if n <= 2 or tier != 'quick':
                    items.append((name, seq, 'regex-directive'))
                    items.append((name, seq, 'empty-setting'))
    for n in range(0, maxlex + 1):
        for seq in itertools.product(ALT_GRAMMAR[2], repeat=n):
            items.append(('alt-comments', seq, 'default'))
    return items, runs


def shard_layouts(m, items, runs=()):
    cache = {}
    for name, seq, wsmode in items:
        if (name, wsmode) not in cache:
            _n, rules, lexemes, token_only = next(g for g in LAYOUT_GRAMMARS + [ALT_GRAMMAR] if g[0] == name)
            dirs = dict(ALT_DIRS if name == 'alt-comments' else DIRS)
            if wsmode == 'regex-directive':
                dirs['whitespace'] = r'[ \t]+'
            g = gs.Grammar(rules=rules, directives=dirs)
            model = impl.compile_text(gs.render_grammar(g))
            cache[(name, wsmode)] = (g, model, token_only and wsmode == 'default')
        g, model, token_only = cache[(name, wsmode)]
        psettings = {'whitespace': ''} if wsmode == 'empty-setting' else {}
        ws = {'default': 'DEFAULT', 'regex-directive': r'[ \t]+', 'empty-setting': None}[wsmode]
        ref = Ref(g, Cfg(whitespace=ws, comments=dirs['comments'], eol_comments=dirs['eol_comments'], namechars=dirs.get('namechars', '')))
        if name == 'alt-comments':
            runs = ALT_RUNS
        base_text = ' '.join(seq)
        base = impl.parse(model, base_text, **psettings)
        m.add('evaluations')
        gaps = len(seq) + 1
        # inner gaps: non-empty runs; leading and trailing: also empty
        choices = [[''] + list(runs)] + [list(runs)] * (len(seq) - 1) + ([[''] + list(runs)] if seq else [])
        if not seq:
            choices = [[''] + list(runs)]
        label = gs.render_grammar(g)
        for combo in itertools.product(*choices):
            parts = []
            for i, lx in enumerate(seq):
                parts.append(combo[i])
                parts.append(lx)
            parts.append(combo[len(seq)] if seq else combo[0])
            text = ''.join(parts) if seq else combo[0]
            got = impl.parse(model, text, **psettings)
            m.add('evaluations')
            m.add('transitions')
            m.add('states')
            try:
                want = ref.parse(text)
            except Undecided:
                want = None
            if want is not None:
                ok = (want[0] == 'fail' and got[0] == 'fail') or (want[0] == 'ok' and got[0] == 'ok' and got[1] == want[1])
                if not ok:
                    m.violation(f'a/differs-from-reference/{name}/{wsmode}', grammar=label, input=text, whitespace=wsmode, got=got, want=want)
            if token_only and base[0] == 'ok':
                m.add('nontrivial')
                if got != base:
                    m.violation(f'a/layout-changes-result/{name}', grammar=label, base_input=base_text, input=text, base=base, got=got)
        if len(seq) == 3 and token_only:
            m.sample({'grammar': name, 'lexemes': list(seq), 'layouts': len(list(itertools.product(*choices)))})


# ------------------------------------------------------------------ (b)

TOKENS = ['ab', 'a', '+', '_c', '-c', 'a1', '1a']
FOLLOW = ['', ' ', 'b', '1', '_', '-', '+', 'é']


def case_variants(t):
    outs = {t}
    for mask in itertools.product([0, 1], repeat=len(t)):
        outs.add(''.join(c.upper() if b else c.lower() for c, b in zip(t, mask)))
    return sorted(outs)


def shard_tokens(m, items):
    for tok in items:
        for nameguard in (None, True, False):
            for namechars in ('', '-', '_'):
                for ignorecase in (False, True):
                    for route in ('directive', 'setting'):
                        dirs = {}
                        settings = {}
                        if route == 'directive':
                            if nameguard is not None:
                                dirs['nameguard'] = nameguard
                            if namechars:
                                dirs['namechars'] = namechars
                            if ignorecase:
                                dirs['ignorecase'] = True
                        else:
                            if nameguard is not None:
                                settings['nameguard'] = nameguard
                            if namechars:
                                settings['namechars'] = namechars
                            if ignorecase:
                                settings['ignorecase'] = True
                        g = gs.Grammar(rules=[gs.Rule('start', ('seq', ('named', 't', T(tok)), ('named', 'rest', C('REST')))),
                                              gs.Rule('REST', ('pat', r'[\s\S]*'))], directives=dirs)
                        try:
                            model = impl.compile_text(gs.render_grammar(g))
                        except Exception as ex:  # noqa
                            m.violation(f'b/compile-failed/{type(ex).__name__}', grammar=gs.render_grammar(g), error=str(ex)[:200])
                            continue
                        ref = Ref(g, Cfg(nameguard=nameguard, namechars=namechars, ignorecase=ignorecase))
                        for variant in case_variants(tok):
                            for fol in FOLLOW:
                                text = variant + fol
                                got = impl.parse(model, text, **settings)
                                want = ref.parse(text)
                                m.add('evaluations')
                                m.add('transitions')
                                m.add('states')
                                if want[0] == 'ok':
                                    m.add('nontrivial')
                                ok = (want[0] == 'fail' and got[0] == 'fail') or (want[0] == 'ok' and got[0] == 'ok' and got[1] == want[1])
                                if not ok:
                                    m.violation(f'b/token-match/{route}', token=tok, input=text, nameguard=nameguard, namechars=namechars,
                                                ignorecase=ignorecase, got=got, want=want)
        # patterns never fold case
        g = gs.Grammar(rules=[gs.Rule('start', ('seq', ('pat', 'ab'), ('eof',)))], directives={'ignorecase': True})
        model = impl.compile_text(gs.render_grammar(g))
        for v in case_variants('ab'):
            got = impl.parse(model, v)
            m.add('evaluations')
            if (got[0] == 'ok') != (v == 'ab'):
                m.violation('b/pattern-folds-case', input=v, got=got)


# ------------------------------------------------------------------ (c)

LAYERING = {
    # setting: (v1, v2, grammar body, probe inputs)
    'whitespace': (r'[ ]+', r'[\t]+', "start: 'a' 'b' $ ;", ['a b', 'a\tb', 'a\nb', 'ab']),
    'nameguard': (True, False, "start: 'a' 'b' $ ;", ['ab', 'a b']),
    'namechars': ('-', '+', "start: 'a' ('-' | '+') 'b' $ ;", ['a-b', 'a+b', 'a - b']),
    'ignorecase': (True, False, "start: 'a' $ ;", ['a', 'A']),
    'comments': (r'\(\*.*?\*\)', r'\{.*?\}', "start: 'a' 'b' $ ;", ['a (*c*) b', 'a {c} b', 'a b']),
    'eol_comments': (r'#[^\n]*', r'//[^\n]*', "start: 'a' 'b' $ ;", ['a #c\n b', 'a //c\n b', 'a b']),
    'parseinfo': (True, False, "start: x:'a' $ ;", ['a']),
    # an explicit empty string is a value too: it switches the feature off
    'whitespace/empty': (r'[ ]+', '', "start: 'a' 'b' $ ;", ['a b', 'ab', 'a\tb']),
    'comments/empty': (r'\(\*.*?\*\)', '', "start: 'a' 'b' $ ;", ['a (*c*) b', 'a b']),
    'eol_comments/empty': (r'#[^\n]*', '', "start: 'a' 'b' $ ;", ['a #c\n b', 'a b']),
}


def directive_text(name, v):
    return gs.render_directive(name, v)


def observe(name, body, probes, compile_v, directive_v, parse_v):
    import tatsu
    text = (directive_text(name, directive_v) + '\n\n' if directive_v is not None else '') + body + '\n'
    ckw = {name: compile_v} if compile_v is not None else {}
    pkw = {name: parse_v} if parse_v is not None else {}
    impl.clear_compile_cache()
    try:
        model = tatsu.compile(text, **ckw)
    except Exception as e:  # noqa
        return ('compile-raised', type(e).__name__)
    obs = []
    for p in probes:
        r = impl.parse(model, p, _keep_parseinfo=True, **pkw)
        if r[0] == 'ok':
            obs.append(('ok', 'parseinfo' in r[1] if isinstance(r[1], dict) else False))
        else:
            obs.append((r[0],))
    return tuple(obs)


def layering(rc):
    n = 0
    for lname, (v1, v2, body, probes) in LAYERING.items():
        name = lname.split('/')[0]
        ref = {None: observe(name, body, probes, None, None, None)}
        for v in (v1, v2):
            ref[v] = observe(name, body, probes, None, None, v)
        if ref[v1] == ref[v2]:
            rc.violation(f'c/probe-does-not-distinguish/{lname}', ref={str(k): v for k, v in ref.items()})
        for cv, dv, pv in itertools.product((None, v1, v2), repeat=3):
            if dv == '':
                continue     # an empty pattern cannot be written as a directive
            eff = pv if pv is not None else (dv if dv is not None else cv)
            got = observe(name, body, probes, cv, dv, pv)
            n += 1
            rc.add('evaluations', len(probes))
            rc.add('transitions')
            rc.add('states')
            if any(x is not None for x in (cv, dv, pv)):
                rc.add('nontrivial')
            if got != ref[eff]:
                top = 'parse' if pv is not None else ('directive' if dv is not None else 'compile')
                sig = f'c/layering/{name}/effective-layer-{top}-ignored'
                if cv is not None:
                    # recorded finding: a setting given to tatsu.compile() is handed to the parser of the
                    # *grammar text* and never reaches the compiled model.  Matched only when the behaviour
                    # is exactly that of the same call without the compile-time setting, or when compiling
                    # itself fails because the setting changed how the grammar text was read.
                    without = observe(name, body, probes, None, dv, pv)
                    if got == without and top == 'compile':
                        sig = f'c/compile-time-setting-ignored/{name}'
                    elif got[0] == 'compile-raised' and without[0] != 'compile-raised':
                        sig = f'c/compile-time-setting-applied-to-grammar-text/{name}'
                rc.violation(sig, setting=name, compile=str(cv), directive=str(dv), parse=str(pv),
                             effective=str(eff), got=got, want=ref[eff])
    rc.coverage['layering_combinations'] = n


def scoping(rc):
    """(d) a parse-time setting applies to that parse only: on one parser object that is used again (a generated
    parser, and the model's own context object), every pair (parse with the setting, then a plain parse) leaves the
    plain parse as it is on a fresh object — whether the first parse succeeded or failed."""
    import tatsu
    from . import c02
    n = 0
    for lname, (v1, v2, body, probes) in LAYERING.items():
        name = lname.split('/')[0]
        text = body + '\n'
        impl.clear_compile_cache()
        model = tatsu.compile(text)
        pcls, _src = c02.load_generated(model)

        def fresh_plain(p):
            return c02.generated_parse(pcls, p)
        want = {p: fresh_plain(p) for p in probes}
        for v in (v1, v2):
            for first in probes:
                for second in probes:
                    parser = pcls()
                    try:
                        parser.parse(first, **{name: v})
                        r1 = ('ok',)
                    except Exception as e:  # noqa
                        r1 = ('fail', type(e).__name__)
                    try:
                        got = ('ok', impl.norm(parser.parse(second), name == 'parseinfo' and False))
                    except tatsu.exceptions.FailedParse as e:
                        got = ('fail', type(e).__name__, getattr(e, 'pos', None))
                    except Exception as e:  # noqa
                        got = ('exc', type(e).__name__, str(e)[:100])
                    n += 1
                    rc.add('evaluations', 2)
                    rc.add('transitions', 2)
                    rc.add('states')
                    if r1[0] != 'ok':
                        rc.add('nontrivial')
                    w = want[second]
                    if got[0] != w[0] or (got[0] == 'ok' and got[1] != w[1]):
                        rc.violation(f'd/parse-time-setting-outlives-its-parse/{name}/' + ('after-failed-parse' if r1[0] != 'ok' else 'after-successful-parse'),
                                     setting=name, value=str(v), first=first, first_outcome=r1, second=second, got=got, want=w)
    rc.coverage['scoping_histories'] = n


def run(rc):
    items, runs = layout_items(rc.tier)
    rc.pmap(shard_layouts, items, runs=runs)
    rc.pmap(shard_tokens, TOKENS, chunk=1)
    layering(rc)
    scoping(rc)
    c = rc.total.counts
    rc.rule = (f'(a) {len(LAYOUT_GRAMMARS)} grammars with comment directives x every lexeme sequence of length <= 3 x every assignment of '
               f'{len(runs)} whitespace/comment runs to every gap (leading/trailing may be empty), under three whitespace modes (default, regex directive, empty parse-time setting); (b) {len(TOKENS)} tokens x all case variants x '
               f'{len(FOLLOW)} following characters x nameguard {{default,on,off}} x namechars {{none,-,_}} x ignorecase x {{directive, parse-time setting}}; '
               f'(c) {len(LAYERING)} settings x 27 combinations of {{absent,v1,v2}} at compile/directive/parse time; (d) the same settings x {{v1,v2}} x every pair '
               'of probes (parse with the setting, then a plain parse) on one generated parser object against a fresh object; non-trivial = accepted base input / '
               'matching token / combination with a layer present')
    rc.coverage.update({'states': c.get('states', 0), 'transitions': c.get('transitions', 0),
                        'traces_validated_against_impl': c.get('states', 0)})
    rc.assumptions += ['tokens that start with a digit are not treated as names (the code guards only name-like tokens; the documentation says "alphanumeric")',
                       'layering reference: the behaviour of each value given alone at parse time']


def replay(data):
    import sys
    from ..replay import replay_by_rerun
    return replay_by_rerun(sys.modules[__name__], data)
