"""C12 — source positions and parse information are exact.

(a) every string over {a, space, LF, CR} up to a length bound x every offset
    x {TextLines cursor, Buffer, Buffer cursor}, against an independent
    line splitter.
(b) parseinfo: see c12b (grammar corpus) — run from here as a second phase.
"""
from __future__ import annotations

import itertools

PROPERTY = 'C12'
LEVEL = 'exploration'

ALPHA = ['a', ' ', '\n', '\r']


def split_ref(text: str):
    """Independent splitter: list of (start, linetext) with terminators kept."""
    out = []
    i = 0
    start = 0
    n = len(text)
    while i < n:
        c = text[i]
        if c == '\r':
            if i + 1 < n and text[i + 1] == '\n':
                i += 2
            else:
                i += 1
            out.append((start, text[start:i]))
            start = i
        elif c == '\n':
            i += 1
            out.append((start, text[start:i]))
            start = i
        else:
            i += 1
    if start < n:
        out.append((start, text[start:n]))
    return out


def ref_at(lines, p):
    for ln, (start, t) in enumerate(lines):
        if start <= p < start + len(t):
            return ln, p - start, start, start + len(t), t
    raise AssertionError


def nbreaks(text: str) -> int:
    n = 0
    i = 0
    while i < len(text):
        if text[i] == '\r':
            n += 1
            if i + 1 < len(text) and text[i + 1] == '\n':
                i += 1
        elif text[i] == '\n':
            n += 1
        i += 1
    return n


def texts(maxlen: int):
    for n in range(maxlen + 1):
        for t in itertools.product(ALPHA, repeat=n):
            yield ''.join(t)


def call(f, *a):
    try:
        return ('ok', f(*a))
    except Exception as e:  # noqa
        return ('exc', f'{type(e).__name__}: {e}')


def check_text(m, text: str):
    from tatsu.input.buffer import Buffer
    from tatsu.input.textlines import TextLines

    lines = split_ref(text)
    n = len(text)
    impls = []
    tl = TextLines(text)
    impls.append(('TextLinesCursor', tl.newcursor(), 'lineat'))
    buf = Buffer(text)
    impls.append(('BufferCursor', buf.newcursor(), 'lineat'))
    impls.append(('Buffer', buf, 'posline'))

    for name, obj, lineat_name in impls:
        # linecount: editor view = breaks + 1
        r = call(lambda: obj.linecount)
        m.add('evaluations')
        if r != ('ok', nbreaks(text) + 1):
            m.violation(f'a/linecount/{name}/{r[0]}', impl=name, text=text, got=r, want=nbreaks(text) + 1)
        # get_line(n) for every line
        for ln, (_s, t) in enumerate(lines):
            r = call(obj.get_line, ln)
            m.add('evaluations')
            if r != ('ok', t):
                m.violation(f'a/get_line/{name}', impl=name, text=text, line=ln, got=r, want=t)
        # the answers must not depend on where the cursor currently stands
        if hasattr(obj, 'goto') and n:
            obj.goto(n)
        for p in range(n + 1):
            m.add('evaluations', 3)
            li = call(obj.lineinfo, p)
            la = call(getattr(obj, lineat_name), p)
            pc = call(obj.poscol, p)
            if p < n:
                ln, col, start, end, t = ref_at(lines, p)
                if ln > 0:
                    m.add('nontrivial')
                want = (ln, col, start, end, t)
                if li[0] != 'ok' or (li[1].line, li[1].col, li[1].start, li[1].end, li[1].text) != want:
                    m.violation(f'a/lineinfo/{name}', impl=name, text=text, pos=p, got=li, want=want)
                if la != ('ok', ln):
                    m.violation(f'a/lineat/{name}', impl=name, text=text, pos=p, got=la, want=ln)
                if pc != ('ok', col):
                    m.violation(f'a/poscol/{name}', impl=name, text=text, pos=p, got=pc, want=col)
            else:
                # at the end of the text only validity is required
                nl = len(lines)
                kind = 'empty' if n == 0 else 'end'
                if li[0] != 'ok':
                    m.violation(f'a/lineinfo-{kind}/{name}/exc', impl=name, text=text, pos=p, got=li)
                else:
                    i = li[1]
                    ok = 0 <= i.line <= max(0, nl - 1) + 0 and 0 <= i.col <= len(i.text) and i.start <= i.end <= n
                    if ok and nl:
                        ok = i.text == lines[i.line][1] and i.start == lines[i.line][0]
                    if not ok:
                        m.violation(f'a/lineinfo-{kind}/{name}/invalid', impl=name, text=text, pos=p, got=li)
                # offset len(text) is not an offset *in* the text: lineat/poscol must answer, no value is
                # demanded (part (b) demands the exact start line of rules that start there).
                if la[0] != 'ok' or not isinstance(la[1], int) or la[1] < 0:
                    m.violation(f'a/lineat-{kind}/{name}', impl=name, text=text, pos=p, got=la, want='an int >= 0')
                if pc[0] != 'ok' or not isinstance(pc[1], int) or pc[1] < 0:
                    m.violation(f'a/poscol-{kind}/{name}', impl=name, text=text, pos=p, got=pc, want='an int >= 0')


def shard(m, items):
    for text in items:
        check_text(m, text)
        m.add('texts')
        if '\r\n' in text and len(text) >= 4:
            m.sample({'text': text, 'lines': split_ref(text)})


def run(rc):
    maxlen = 7 if rc.tier == 'quick' else 9
    rc.rule = (f'(a) all strings over {{a,space,LF,CR}} of length <= {maxlen} x all offsets 0..len x '
               '{TextLinesCursor, BufferCursor, Buffer} x {lineinfo, lineat/posline, poscol, get_line, linecount} '
               'against an independent splitter; non-trivial = offset on a line other than the first. '
               '(b) parseinfo over the named-rule grammar corpus, see coverage.partb. (c) parseinfo of model nodes: the type-annotated templates of C07 x all inputs '
               'over their alphabet with blanks and line breaks; rule belongs to the class, span re-parses from that rule to the same node, see coverage.partc')
    rc.pmap(shard, texts(maxlen), chunk=400)
    rc.coverage['parta_texts'] = rc.count('texts')
    from . import c12b
    c12b.run_partb(rc)
    from . import c12c
    c12c.run_partc(rc)
    rc.assumptions += [
        'line breaks are LF, CR, CRLF (the property\'s alphabet); other Unicode line separators are not enumerated',
        'at offset == len(text) only validity (existing line, col within it) is required, as the existing tests pin',
    ]


def replay(data):
    from ..runner import Merge
    m = Merge()
    d = data['detail']
    if 'text' in d and 'grammar' not in d:
        check_text(m, d['text'])
    else:
        from . import c12b
        return c12b.replay(data)
    for v in m.violations:
        print('VIOLATION', v)
    return 1 if m.violations else 0
