"""C03 — left-recursive rules parse, terminate and associate to the left.

Grammar templates (direct, two operators, two levels, aliased, alias chain,
mutual, optional-prefixed, named, mixed with right recursion, unary prefix,
parenthesised atoms) x every assignment of rule names to the cycle's rules
(so that every relative alphabetical order occurs) x entry through every rule
of the cycle x all token strings up to a length bound.
Oracles: (i) every template: termination, model == generated parser;
(ii) single-head templates: equality with the reference evaluator's seed
growing, and the closed form for pure operator chains; (iii) mutual cycles:
(i) plus invariance of accept/reject under renaming.
"""
from __future__ import annotations

import itertools
import signal

from .. import gramspace as gs
from .. import impl
from ..refsem import Cfg, Ref, Undecided
from . import c02

PROPERTY = 'C03'
LEVEL = 'model_checking'

ONE = ('tok', '1')


def T(s):
    return ('tok', s)


def C(n):
    return ('call', n)


def S(*xs):
    return ('seq',) + xs


def A(*xs):
    return ('alt',) + xs


# template: (name, tier, cycle rule placeholders, other rules, tokens, builder(names) -> list[Rule])
# placeholders E X Y ... are replaced by permuted names; non-cycle rules keep fixed names (t, f, u).
def templates():
    out = []

    def add(name, tier, cyc, tokens, rules, entries=None):
        out.append({'name': name, 'tier': tier, 'cycle': cyc, 'tokens': tokens, 'rules': rules, 'entries': entries or cyc})

    add('direct', 2, ['E'], ['1', '+'], lambda n: [
        gs.Rule(n['E'], A(S(C(n['E']), T('+'), C('t')), C('t'))), gs.Rule('t', ONE)])
    add('two-ops', 2, ['E'], ['1', '+', '-'], lambda n: [
        gs.Rule(n['E'], A(S(C(n['E']), T('+'), C('t')), S(C(n['E']), T('-'), C('t')), C('t'))), gs.Rule('t', ONE)])
    add('two-levels', 2, ['E', 'F'], ['1', '+', '*'], lambda n: [
        gs.Rule(n['E'], A(S(C(n['E']), T('+'), C(n['F'])), C(n['F']))),
        gs.Rule(n['F'], A(S(C(n['F']), T('*'), C('t')), C('t'))), gs.Rule('t', ONE)], entries=['E'])
    add('aliased', 2, ['E', 'X'], ['1', '+'], lambda n: [
        gs.Rule(n['E'], A(S(C(n['X']), T('+'), C('t')), C('t'))), gs.Rule(n['X'], C(n['E'])), gs.Rule('t', ONE)])
    add('alias-chain', 2, ['E', 'X', 'Y'], ['1', '+'], lambda n: [
        gs.Rule(n['E'], A(S(C(n['X']), T('+'), C('t')), C('t'))), gs.Rule(n['X'], C(n['Y'])), gs.Rule(n['Y'], C(n['E'])),
        gs.Rule('t', ONE)])
    add('mutual', 3, ['E', 'X'], ['1', '2', '+', '-'], lambda n: [
        gs.Rule(n['E'], A(S(C(n['X']), T('+'), C('t')), C('t'))),
        gs.Rule(n['X'], A(S(C(n['E']), T('-'), C('t')), C('u'))), gs.Rule('t', ONE), gs.Rule('u', T('2'))])
    add('optional-prefixed', 2, ['E'], ['1', '+', '-'], lambda n: [
        gs.Rule(n['E'], A(S(('opt', T('-')), C(n['E']), T('+'), C('t')), C('t'))), gs.Rule('t', ONE)])
    add('closure-prefixed', 2, ['E'], ['1', '+', '-'], lambda n: [
        gs.Rule(n['E'], A(S(('clo', T('-')), C(n['E']), T('+'), C('t')), C('t'))), gs.Rule('t', ONE)])
    add('named', 2, ['E'], ['1', '+'], lambda n: [
        gs.Rule(n['E'], A(S(('named', 'l', C(n['E'])), ('named', 'op', T('+')), ('named', 'r', C('t'))), C('t'))),
        gs.Rule('t', ONE)])
    add('named-aliased', 2, ['E', 'X'], ['1', '+'], lambda n: [
        gs.Rule(n['E'], A(S(('named', 'l', C(n['X'])), T('+'), ('named', 'r', C('t'))), C('t'))),
        gs.Rule(n['X'], C(n['E'])), gs.Rule('t', ONE)])
    # the rule's value is a plain list (override over a group): every seed must stay one element of the next
    add('override-group', 2, ['E'], ['1', '+'], lambda n: [
        gs.Rule(n['E'], A(('ovr', ('grp', S(C(n['E']), T('+'), C('t')))), C('t'))), gs.Rule('t', ONE)])
    add('left-and-right', 2, ['E'], ['1', '+'], lambda n: [
        gs.Rule(n['E'], A(S(C(n['E']), T('+'), C(n['E'])), C('t'))), gs.Rule('t', ONE)])
    add('right-only', 2, ['E'], ['1', '^'], lambda n: [
        gs.Rule(n['E'], A(S(C('t'), T('^'), C(n['E'])), C('t'))), gs.Rule('t', ONE)])
    add('unary-prefix', 2, ['E'], ['1', '+', '-'], lambda n: [
        gs.Rule(n['E'], A(S(T('-'), C(n['E'])), S(C(n['E']), T('+'), C('t')), C('t'))), gs.Rule('t', ONE)])
    add('parens', 2, ['E'], ['1', '+', '(', ')'], lambda n: [
        gs.Rule(n['E'], A(S(C(n['E']), T('+'), C('t')), C('t'))),
        gs.Rule('t', A(S(T('('), C(n['E']), T(')')), ONE))])
    add('parens-aliased', 2, ['E', 'X'], ['1', '+', '(', ')'], lambda n: [
        gs.Rule(n['E'], A(S(C(n['X']), T('+'), C('t')), C('t'))), gs.Rule(n['X'], C(n['E'])),
        gs.Rule('t', A(S(T('('), C(n['E']), T(')')), ONE))], entries=['E', 'X'])
    add('lookahead-prefixed', 2, ['E'], ['1', '+'], lambda n: [
        gs.Rule(n['E'], A(S(('look', ONE), C(n['E']), T('+'), C('t')), C('t'))), gs.Rule('t', ONE)])
    add('postfix-and-binary', 2, ['E'], ['1', '+', '!'], lambda n: [
        gs.Rule(n['E'], A(S(C(n['E']), T('+'), C('t')), S(C(n['E']), T('!')), C('t'))), gs.Rule('t', ONE)])
    add('direct-plus-mutual', 2, ['E', 'X'], ['1', '+', '.'], lambda n: [
        gs.Rule(n['E'], A(S(C(n['E']), T('+'), C('t')), C(n['X']))),
        gs.Rule(n['X'], A(S(C(n['E']), T('.'), C('t')), C('t'))), gs.Rule('t', ONE)])
    add('lr-under-right-recursion', 2, ['E'], ['1', '^', '!'], lambda n: [
        gs.Rule('f', A(S(C(n['E']), T('^'), C('f')), C(n['E']))),
        gs.Rule(n['E'], A(S(C(n['E']), T('!')), C('t'))), gs.Rule('t', ONE)], entries=['E'])
    add('lr-retried-after-backtrack', 2, ['E'], ['1', '+', '='], lambda n: [
        gs.Rule('stmt', A(S(C(n['E']), T('='), C(n['E'])), C(n['E']))),
        gs.Rule(n['E'], A(S(C(n['E']), T('+'), C('t')), C('t'))), gs.Rule('t', ONE)], entries=['E'])
    # something that can match nothing and itself calls a rule stands before the recursive call
    add('nlook-call-prefixed', 2, ['E'], ['1', '+', '-'], lambda n: [
        gs.Rule(n['E'], A(S(('nlook', C('k')), C(n['E']), T('+'), C('t')), S(('nlook', C('k')), C('t')))), gs.Rule('k', T('-')), gs.Rule('t', ONE)])
    add('optional-call-prefixed', 2, ['E'], ['1', '+', '-'], lambda n: [
        gs.Rule(n['E'], A(S(('opt', C('k')), C(n['E']), T('+'), C('t')), C('t'))), gs.Rule('k', T('-')), gs.Rule('t', ONE)])
    add('closure-call-prefixed', 2, ['E'], ['1', '+', '-'], lambda n: [
        gs.Rule(n['E'], A(S(('clo', C('k')), C(n['E']), T('+'), C('t')), S(('clo', C('k')), C('t')))), gs.Rule('k', T('-')), gs.Rule('t', ONE)])
    add('look-call-prefixed-aliased', 2, ['E', 'X'], ['1', '+'], lambda n: [
        gs.Rule(n['E'], A(S(('look', C('t')), C(n['X']), T('+'), C('t')), C('t'))), gs.Rule(n['X'], C(n['E'])), gs.Rule('t', ONE)])
    # the recursive call sits in a rule whose right hand side is included, or in the base of a based rule
    add('through-include', 2, ['E'], ['1', '+'], lambda n: [
        gs.Rule('pre', S(C(n['E']), T('+'))),
        gs.Rule(n['E'], A(S(('inc', 'pre'), C('t')), C('t'))), gs.Rule('t', ONE)])
    add('through-include-optional', 2, ['E'], ['1', '+', '-'], lambda n: [
        gs.Rule('pre', S(('opt', T('-')), C(n['E']), T('+'))),
        gs.Rule(n['E'], A(S(('inc', 'pre'), C('t')), C('t'))), gs.Rule('t', ONE)])
    add('through-base', 2, ['E'], ['1', '+'], lambda n: [
        gs.Rule('pre', ('opt', S(C(n['E']), T('+')))),
        gs.Rule(n['E'], C('t'), base='pre'), gs.Rule('t', ONE)])
    add('based-on-consuming-base', 2, ['E'], ['1', '+'], lambda n: [
        gs.Rule('pre', ONE),
        gs.Rule(n['E'], A(S(C(n['E']), T('+')), ('void',)), base='pre')])
    add('mutual-three', 3, ['E', 'X', 'Y'], ['1', '+', '-', '*'], lambda n: [
        gs.Rule(n['E'], A(S(C(n['X']), T('+'), C('t')), C('t'))),
        gs.Rule(n['X'], A(S(C(n['Y']), T('-'), C('t')), C('t'))),
        gs.Rule(n['Y'], A(S(C(n['E']), T('*'), C('t')), C('t'))), gs.Rule('t', ONE)])
    return out


POOL = ['e', 'm', 'x']


def name_maps(cycle):
    k = len(cycle)
    for perm in itertools.permutations(POOL[:k]):
        yield dict(zip(cycle, perm))


class Watchdog(Exception):
    pass


def _alarm(*_a):
    raise Watchdog()


def guarded(f, *a, **k):
    signal.setitimer(signal.ITIMER_REAL, 10.0)
    try:
        return f(*a, **k)
    except Watchdog:
        return ('exc', 'Timeout', '')
    finally:
        signal.setitimer(signal.ITIMER_REAL, 0)


def reused_parse(parser, text, start):
    import contextlib
    import io
    from tatsu.exceptions import FailedParse, ParseException
    try:
        with contextlib.redirect_stderr(io.StringIO()):
            v = parser.parse(text, start=start)
        return ('ok', impl.norm(v))
    except FailedParse as e:
        return ('fail', type(e).__name__, getattr(e, 'pos', None))
    except ParseException as e:
        return ('fail', type(e).__name__, None)
    except RecursionError:
        return ('exc', 'RecursionError', '')
    except Exception as e:  # noqa
        return ('exc', type(e).__name__, str(e)[:200])


def left_fold(tokens):
    """closed form for a pure chain 1 (op 1)*: left-nested lists"""
    v = tokens[0]
    i = 1
    while i + 1 < len(tokens):
        v = [v, tokens[i], tokens[i + 1]]
        i += 2
    return v


def cases(tier):
    out = []
    for tpl in templates():
        for nm in name_maps(tpl['cycle']):
            for entry in tpl['entries']:
                out.append((tpl['name'], nm, entry))
    return out


def shard(m, items, maxlen=5):
    signal.signal(signal.SIGALRM, _alarm)
    tpls = {t['name']: t for t in templates()}
    for tname, nm, entry in items:
        tpl = tpls[tname]
        rules = tpl['rules'](nm)
        start = nm[entry]
        # the entry rule goes first so that it is also the default start
        rules = [r for r in rules if r.name == start] + [r for r in rules if r.name != start]
        # an included or base rule has to be defined before the rule that uses it
        rules = [r for r in rules if r.name == 'pre'] + [r for r in rules if r.name != 'pre']
        g = gs.Grammar(rules=[gs.Rule('top', S(C(start), ('eof',)))] + rules)
        label = '; '.join(gs.render_rule(r) for r in g.rules)
        text = gs.render_grammar(g)
        try:
            model = impl.compile_text(text)
            pcls, _src = c02.load_generated(model)
        except Exception as ex:  # noqa
            m.violation(f'compile-or-codegen-failed/{type(ex).__name__}', grammar=label, error=str(ex)[:300])
            continue
        m.add('programs')
        ref = Ref(g, Cfg())
        inputs = list(gs.inputs(tpl['tokens'], maxlen))
        m.note('templates', tname)
        impl.rule_reach(m, 'template-rules', f'{tname}/{entry}', model, inputs, start='top')
        extra_starts = [r.name for r in rules if r.name in ('f', 'stmt')]
        reused = pcls()    # one generated parser object reused for every input of this program
        for t in inputs:
            # both the anchored parse (top: start $) and the prefix parse (start=...)
            for st in ['top', start] + extra_starts:
                a = guarded(impl.parse, model, t, start=st)
                b = guarded(c02.generated_parse, pcls, t, start=st)
                m.add('evaluations', 2)
                m.add('transitions', 2)
                m.add('states')
                if a[0] == 'exc':
                    m.violation(f'i/model-{a[1]}/{tname}', grammar=label, start=st, input=t, got=a)
                    continue
                if b[0] == 'exc':
                    m.violation(f'i/generated-{b[1]}/{tname}', grammar=label, start=st, input=t, got=b)
                    continue
                if a[0] != b[0] or (a[0] == 'ok' and a[1] != b[1]):
                    m.violation(f'i/model-generated-differ/{tname}', grammar=label, start=st, input=t, model=a, generated=b)
                c = guarded(reused_parse, reused, t, st)
                m.add('evaluations')
                if c != b:
                    m.violation(f'i/reused-generated-parser-differs/{tname}', grammar=label, start=st, input=t, fresh=b, reused=c)
                if tpl['tier'] == 2:
                    try:
                        want = ref.parse(t, start=st)
                    except (Undecided, RecursionError):
                        m.add('undecided_cases')
                        continue
                    if want[0] == 'ok':
                        m.add('nontrivial')
                    ok = (want[0] == 'fail' and a[0] == 'fail') or (want[0] == 'ok' and a[0] == 'ok' and a[1] == want[1])
                    if not ok:
                        qk = explain(g, t, st, a)
                        sig = f'defect:{qk}' if qk else f'ii/differs-from-seed-growing/{tname}'
                        m.violation(sig, grammar=label, start=st, input=t, got=a, want=want)
                else:
                    m.note(('accept', tname, entry, st, t), (tuple(sorted(nm.items())), a[0]))
        # closed form on pure chains for the plain templates
        if tname in ('direct', 'aliased', 'alias-chain') and entry == 'E':
            for n in range(1, 4):
                toks = ['1'] + ['+', '1'] * n
                a = impl.parse(model, ''.join(toks), start='top')
                m.add('evaluations')
                if a != ('ok', left_fold(toks)):
                    qk = explain(g, ''.join(toks), 'top', a)
                    m.violation(f'defect:{qk}' if qk else f'ii/not-left-associative/{tname}', grammar=label, input=''.join(toks), got=a, want=left_fold(toks))
        m.sample({'template': tname, 'names': nm, 'entry': entry, 'grammar': label, 'inputs': len(inputs)})


QUIRKS = ('static-min-name-leader',)


def explain(g, text, start, got):
    for qk in QUIRKS:
        try:
            alt = Ref(g, Cfg(), quirks=frozenset([qk])).parse(text, start=start)
        except (Undecided, RecursionError):
            continue
        if (alt[0] == 'fail' and got[0] == 'fail') or (alt[0] == 'ok' and got[0] == 'ok' and got[1] == alt[1]):
            return qk
    return None


def run(rc):
    quick = rc.tier == 'quick'
    cs = cases(rc.tier)
    rc.pmap(shard, cs, chunk=1, maxlen=5 if quick else 7)
    # tier iii: invariance of accept/reject under renaming
    groups: dict = {}
    for key, vals in rc.total.sets.items():
        if isinstance(key, tuple) and key and key[0] == 'accept':
            outcomes = {v[1] for v in vals}
            if len(outcomes) > 1:
                rc.violation(f'iii/accept-depends-on-rule-names/{key[1]}', template=key[1], entry=key[2], start=key[3], input=key[4],
                             outcomes=sorted((dict(v[0]), v[1]) for v in vals) if False else [list(map(str, v)) for v in vals])
    for key in [k for k in rc.total.sets if isinstance(k, tuple)]:
        del rc.total.sets[key]
    c = rc.total.counts
    rc.rule = (f'{len(templates())} left-recursion templates x all assignments of rule names to the cycle rules (every relative alphabetical order) x '
               f'entry through every cycle rule x all strings over the template\'s tokens up to length {5 if quick else 7}, anchored (top: start $) and '
               'prefix parses; (i) termination (RecursionError / 10 s watchdog) and model == generated parser; (ii) single-head templates: equality '
               'with the reference evaluator and left-fold closed form; (iii) mutual templates: accept/reject invariant under renaming; '
               'non-trivial = accepted by the reference')
    rc.coverage.update({
        'states': c.get('states', 0), 'transitions': c.get('transitions', 0),
        'traces_validated_against_impl': c.get('states', 0), 'programs': c.get('programs', 0),
        'templates': sorted(rc.total.sets.get('templates', ())),
    })
    rc.assumptions += ['reference: seed growing with a dynamic head (DESIGN appendix A); for genuinely mutual cycles no unique result is demanded']


def replay(data):
    import sys
    from ..replay import replay_by_rerun
    return replay_by_rerun(sys.modules[__name__], data)
