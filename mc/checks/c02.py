"""C02 — generated Python parsers behave identically to the grammar model.

Differential, no reference model: for every grammar of the corpus the Python
source produced by the code generator must compile and load, and
<Name>Parser().parse must accept exactly when model.parse accepts, with equal
ASTs, and fail with a parse error where the model fails — under the same
parse-time settings and semantic actions.
"""
from __future__ import annotations

import itertools

from .. import gramspace as gs
from .. import impl
from . import c01, c05

PROPERTY = 'C02'
LEVEL = 'model_checking'

SETTINGS = [
    ('defaults', {}),
    ('ignorecase', {'ignorecase': True}),
    ('nameguard-off', {'nameguard': False}),
    ('whitespace', {'whitespace': ' '}),
    ('parseinfo', {'parseinfo': True}),
]


class Tagging:
    """Semantic actions: wrap every rule value with the rule name."""

    def _default(self, ast, *args, **kwargs):
        return ('<tagged>', ast, args, tuple(sorted((k, v) for k, v in kwargs.items() if k != 'parseinfo')))


class Identity:
    def _default(self, ast, *args, **kwargs):
        return ast


def load_generated(model, name='G'):
    from tatsu.ngcodegen.ngparser_gen import pythongen
    src = pythongen(model, parser_name=name)
    code = compile(src, f'<generated {name}>', 'exec')
    ns: dict = {'__name__': f'generated_{name}'}
    exec(code, ns)
    return ns[f'{name}Parser'], src


def generated_parse(pcls, text, _keep_parseinfo=None, **settings):
    import contextlib
    import io
    from tatsu.exceptions import FailedParse, ParseException
    try:
        with contextlib.redirect_stderr(io.StringIO()):
            v = pcls().parse(text, **settings)
        return ('ok', impl.norm(v, settings.get('parseinfo', False) if _keep_parseinfo is None else _keep_parseinfo))
    except FailedParse as e:
        return ('fail', type(e).__name__, getattr(e, 'pos', None))
    except ParseException as e:
        return ('fail', type(e).__name__, None)
    except RecursionError:
        return ('exc', 'RecursionError', '')
    except Exception as e:  # noqa
        return ('exc', type(e).__name__, str(e)[:200])


# Names/overrides applied to an expression that returns a value without appending it to
# the CST (`()`, `&e`, `$`) or that itself binds names (`@:(@:e)`): the model binds what the
# sub-expression *returns*, the generated runtime what it *appended*.  One root cause, one
# recorded finding; every other AST difference is reported under its own signature.
VALUELESS = {'void', 'look', 'nlook', 'eof', 'fail', 'cut', 'named', 'nlist', 'ovr', 'ovrl'}


def d2_shapes(e):
    for x in gs.subexps(e):
        if x[0] in ('named', 'nlist', 'ovr', 'ovrl'):
            target = x[2] if x[0] in ('named', 'nlist') else x[1]
            if gs.kinds(target) & VALUELESS:
                return True
    return False


def compare(m, label, shapes, model, pcls, text, sname, settings, sem_factory=None, known=None):
    kw = dict(impl.with_start(model, settings))
    kw2 = dict(kw)
    if sem_factory is not None:
        kw['semantics'] = sem_factory()
        kw2['semantics'] = sem_factory()
    # parse information is kept on both sides whenever it is there (a @@parseinfo directive switches it on)
    a = impl.parse(model, text, _keep_parseinfo=True, **kw)
    b = generated_parse(pcls, text, _keep_parseinfo=True, **kw2)
    m.add('evaluations', 2)
    m.add('transitions', 2)
    m.add('states')
    if a[0] == 'ok':
        m.add('nontrivial')
    if a[0] != b[0]:
        kind = f'accept-differs/model-{a[0]}-generated-{b[0]}'
    elif a[0] == 'ok' and a[1] != b[1]:
        kind = 'ast-differs'
    elif a[0] == 'exc' and a[1] != b[1]:
        kind = 'foreign-exception-differs'
    else:
        if a[0] == 'exc':
            m.add('both_foreign_exception')
        return
    import re as _re
    if known:
        sig = known
    elif shapes and kind == 'ast-differs':
        sig = 'ast-differs/name-over-valueless-or-binding-expression'
    elif kind == 'accept-differs/model-ok-generated-fail' and isinstance(label, str) and _re.search(r'/\(\?x\)[^/]*\n', label):
        # recorded finding: a verbose pattern that contains line breaks (they become \n escapes in generated source)
        sig = 'accept-differs/model-ok-generated-fail/verbose-pattern-with-line-breaks'
    else:
        sig = f'{kind}/{sname}' + ('/semantics' if sem_factory else '')
    m.violation(sig, grammar=label, input=text, settings=sname, model=a, generated=b)


def shard_exprs(m, items, inputs=(), settings=SETTINGS):
    for e in items:
        g = gs.Grammar(rules=[gs.Rule('start', e)] + c01.HELPERS)
        text = gs.render_grammar(g)
        label = 'start: ' + gs.render(e)
        try:
            model = impl.compile_text(text)
        except Exception as ex:  # noqa
            m.add('not_compilable')
            continue
        try:
            pcls, src = load_generated(model)
        except Exception as ex:  # noqa
            name = type(ex).__name__
            if name == 'CodegenError':
                m.add('codegen_rejected_nullable_repeat')   # documented refusal
                continue
            m.violation(f'generated-source-invalid/{name}', grammar=label, error=str(ex)[:300])
            continue
        m.add('programs')
        shapes = d2_shapes(e)
        for sname, st in settings:
            for t in inputs:
                compare(m, label, shapes, model, pcls, t, sname, st)
        for t in inputs:
            compare(m, label, shapes, model, pcls, t, 'defaults', {}, Tagging)


FEATURE_GRAMMARS = [
    ('directives-ws', "@@whitespace :: /[ \\t]+/\n@@nameguard :: False\n\nstart: {'a' | 'ab' | NL}+ $ ;\n\nNL: /\\n/ ;\n"),
    ('directives-case', "@@ignorecase :: True\n@@namechars :: '-'\n\nstart: {'a-b' | 'a' | /b+/}+ $ ;\n"),
    ('comments', "@@comments :: /\\(\\*.*?\\*\\)/\n@@eol_comments :: /#.*?$/\n\nstart: {'a' | 'b'}+ $ ;\n"),
    ('keywords', "@@keyword :: a 'b'\n\nstart: {id}+ $ ;\n\n@name\nid: /[ab]+/ ;\n"),
    ('keywords-ic', "@@ignorecase :: True\n@@keyword :: a\n\nstart: {id | 'a'}+ $ ;\n\n@name\nid: /[abAB]+/ ;\n"),
    ('params', "start: {p | q}+ $ ;\n\np[A, 1]: 'a' ;\n\nq[k=2]: 'b' ;\n"),
    ('pynames', "start: class | def_ print ;\n\nclass: 'a' type ;\n\ndef_: 'b' ;\n\nprint: 'a' | match ;\n\nmatch: 'b' 'b' ;\n\ntype: ['b'] ;\n"),
    ('pystart', "if: 'a' class $ ;\n\nclass: 'b' | () ;\n"),
    ('upper', "start: A B | B A ;\n\nA: 'a' /b*/ ;\n\nB: /b/ ;\n"),
    ('parseinfo-dir', "@@parseinfo :: True\n\nstart: x:'a' y:r | r ;\n\nr: z:'b' ;\n"),
    ('pyliterals', "start: {'None' | 'True' | 'r' | 'a'}+ $ ;\n"),
    ('quotes', "start: {\"'\" | '\"' | /\"+/ | /'+/ | ?\"a/b\" | 'a'}+ $ ;\n"),
    ('leftrec', "start: e $ ;\n\ne: e 'a' | 'b' ;\n"),
    ('leftrec-off', "@@left_recursion :: False\n\nstart: e $ ;\n\ne: 'b' {'a'} ;\n"),
    ('based', "start: d $ ;\n\nb: 'a' ;\n\nd < b: 'b' ;\n"),
    ('include', "inc: x:'b' ;\n\nstart: 'a' >inc 'a' $ ;\n"),
    ('override-rule', "start: ab $ ;\n\nab: 'a' ;\n\n@override\nab: @:'a' {@:'b'} ;\n"),
    ('constants', "start: 'a' `1` `k` x:`x` | 'b' ^`warn` ;\n"),
    ('meta', "start: {@int | @name | @float}+ $ ;\n"),
    ('skipto', "start: ->'b' 'a' | ->&'a' /./ ;\n"),
    ('eol', "start: 'a' $-> 'b' | 'b' $-> ;\n"),
    ('joins', "start: 'b'%{'a'}+ | 'b'.{'a' 'a'} 'b' ;\n"),
    ('shared-names', "start: 'a' c:n 'b' t:n ['a' e:n] | 'b' c:n ['b' t:n] | l+:'a' | 'b' 'b' l+:n {l+:n} ;\n\nn: /[ab]/ ;\n"),
    ('names-without-sequence', "start: args $ | items $ ;\n\nargs: 'b'.{a+:n} ;\n\nitems: {x+:'a' | y+:'b' 'b'}+ ;\n\nn: 'a' 'a' ;\n"),
    # names that decide whether a rule is a token rule (no blanks skipped before it): upper case after any underscores
    ('token-rule-names', "start: 'a' _Word 'a' | 'b' __w 'b' | Word _word ;\n\n_Word: /b+/ ;\n\n__w: /a+/ ;\n\nWord: /a/ ;\n\n_word: /b/ ;\n"),
    # a cut written directly inside a group commits the enclosing option / optional / closure iteration
    ('cut-in-group', "start: ('a' ~ 'b') | 'a' 'a' | x:('b' ~ 'a') | 'b' 'b' ;\n"),
    ('cut-in-group-optional', "start: [('a' ~ 'b')] 'a' $ | {('b' ~ 'a')} 'b' $ ;\n"),
    # left/right joins: alone (model and generated agree) and under a name after another element (recorded finding)
    ('left-right-joins', "start: 'b'<{'a'}+ $ | 'a'>{'b'}+ 'a' $ ;\n"),
    ('left-right-joins-named', "start: x:'b' n:('b'<{'a'}+) $ | x:'a' n:('a'>{'b'}+) $ ;\n"),
    ('verbose-pattern-multiline', "start: /(?x)\n  a\n  b/ 'a' $ | /(?x) b  # c\n/ $ ;\n"),
    # skip groups match but add nothing to the result (and keep names bound inside them to themselves)
    ('skip-group', "start: 'a' (?: 'b' 'a') 'b' $ | (?: 'a') x:'a' (?: y:'b') $ | (?: 'b' | 'a' 'b') {(?: 'b')} 'a' $ ;\n"),
    # a name over a group of several nodes, bound again afterwards; an override over such a group in a rule called mid-sequence
    ('named-multi-node-group', "start: 'a' x:('a' 'b') x:'b' $ | 'b' x:('a' 'b') x:('b' 'a') $ | 'b' r 'a' $ ;\n\nr: 'b' @:('a' 'b') ;\n"),
    # a name over a group whose later elements bring several values of their own (an optional, a group with a choice, a closure)
    ('named-group-with-composite-tail', "start: 'a' x:('a' ['b' 'a']) $ | 'b' y:('b' ('a' 'b' | 'b')) $ | z+:('b' 'a' {'a' 'b'}+) $ | @:('a' 'b' ['a' 'b' 'a']) $ ;\n"),
    ('names-in-nested-choice', "start: ('a' x:'a' | 'b' [x:'b'] y:'a') [z:'b' | z+:'a'] ;\n"),
]


def feature_inputs(name, tier):
    alpha = {
        'directives-ws': ['a', 'b', ' ', '\n'], 'directives-case': ['a', 'A', 'b', '-', ' '],
        'comments': ['a', 'b', ' ', '(*b*)', '#a\n'], 'keywords': ['a', 'b', ' '], 'keywords-ic': ['a', 'A', 'b', ' '],
        'pyliterals': ['None', 'True', 'r', 'a', ' '], 'quotes': ["'", '"', 'a', '/', 'b', ' '],
        'meta': ['1', '-', '.', 'a', '_', ' ', 'e'], 'eol': ['a', 'b', ' ', '\n'],
        'meta-all': ['-1 ', '2 ', '1.5 ', 'true ', 'x '], 'lookaheads': ['a', 'b', 'c', 'd', ' '],
        'ws-directive': ['a-b', 'c', ' ', '\t', '(*x*)', '#x\n'], 'long-choice': ['a' * 9, 'b' * 9, 'j' * 9, 'a', ' '],
        'unicode': ['é', 'こんにちは', '世界', 'w', 'x', ' '],
        'named-multi-node-group': ['a ', 'b '], 'named-group-with-composite-tail': ['a ', 'b '],
        'wide-first': ['日本', 'a', 'b', ' '], 'wide-inner': ['日本', 'a', 'b', 'c', ' '], 'wide-inner-2': ['日本語', 'x', 'a', ' '], 'wide-last': ['日本', 'a', ' '],
        'wide-names': ['ｗ', 'a', '世', '界', 'c', ' '],
        'long-gather': ['a' * 20, 'b' * 20, ',', ' '], 'long-join': ['a' * 20, 'c' * 20, ';', ' '],
        'long-left-join': ['a' * 20, 'b' * 20, '+'], 'long-right-join': ['a' * 20, 'b' * 20, '+'],
        'long-closures': ['a' * 20 + ' ', 'b' * 20 + ' ', 'd' * 20 + ' ', 'g' * 20 + ' ', 'i' * 20], 'long-named': ['a' * 20 + ' ', 'c' * 20 + ' ', 'd' * 20, 'a'],
    }.get(name, ['a', 'b', ' '])
    n = 4 if tier == 'quick' else 5
    if name in ('include', 'pynames', 'meta-all', 'lookaheads', 'unicode', 'token-rule-names', 'cut-in-group-optional', 'left-right-joins', 'left-right-joins-named', 'skip-group', 'named-multi-node-group', 'named-group-with-composite-tail') or name.startswith('long-'):
        n = 5       # their longest alternative needs that many lexemes
    if name == 'long-choice':
        n = 2
    if name == 'long-seq':
        words = [c * 9 for c in 'abcdefghij']
        out = [' '.join(words), ''.join(words), '  '.join(words) + ' ']
        out += [' '.join(words[:i] + words[i + 1:]) for i in range(10)]
        out += [' '.join(words[:i] + [words[i + 1], words[i]] + words[i + 2:]) for i in range(9)]
        out += [' '.join(words[:i]) for i in range(10)]
        return out
    return list(gs.inputs(alpha, n))


def feature_inputs_capped(name, tier, cap, model=None):
    """All inputs when they are at most `cap`; else the shortest cap/2 plus up to cap/2 of the inputs the model
    accepts (long accepted inputs are the ones that reach a grammar's last elements), longest first."""
    ins = feature_inputs(name, tier)
    if len(ins) <= cap:
        return ins
    head = ins[:cap // 2]
    rest = ins[cap // 2:]
    if model is None:
        return head + rest[-(cap // 2):]
    kw = impl.with_start(model, {})
    acc = [t for t in rest if impl.parse(model, t, **kw)[0] == 'ok']
    acc = acc[::-1][:cap // 2]
    return head + acc + rest[-max(0, cap // 2 - len(acc)):] if len(acc) < cap // 2 else head + acc


def shard_features(m, items, tier='quick'):
    for name, text in items:
        label = text
        try:
            model = impl.compile_text(text)
            pcls, src = load_generated(model)
        except Exception as ex:  # noqa
            m.violation(f'generated-source-invalid/{name}/{type(ex).__name__}', grammar=label, error=str(ex)[:300])
            continue
        m.add('programs')
        inputs = feature_inputs(name, tier)
        impl.rule_reach(m, 'feature-grammar-rules', name, model, inputs, **impl.with_start(model, {}))
        for sname, st in SETTINGS:
            for t in inputs:
                compare(m, label, False, model, pcls, t, f'{name}/{sname}', st)
        for t in inputs:
            compare(m, label, False, model, pcls, t, f'{name}/defaults', {}, Tagging)
            compare(m, label, False, model, pcls, t, f'{name}/defaults', {}, Identity)
        m.sample({'grammar': text, 'inputs': len(inputs), 'settings': [s for s, _ in SETTINGS]})


class ListAction:
    """Actions that return a plain list (rule `r` only)."""

    def r(self, ast):
        return [1, 2]


# Grammars aimed at the code generator itself: what it names, quotes and numbers.  (name, grammar, inputs, semantics, recorded-finding)
# A recorded finding is tied to the grammar it is listed with; every other difference is a violation.
CODEGEN_CASES = [
    # names of an option that is not a sequence exist even when the option matches nothing
    ('option-names-optional', "start: [x:'a'] | 'b' ;", ['', 'a', 'b'], None, None),
    ('option-names-closure', "start: {x+:'a'} | 'b' ;", ['', 'a', 'a a', 'b'], None, None),
    ('option-names-group', "start: (x:'a' | ()) | 'b' ;", ['', 'a', 'b'], None, None),
    ('option-names-nested', "start: 'a' ([y:'b'] | z:'a') $ | [w:'b'] $ ;", ['a', 'a b', 'a a', 'b', ''], None, None),
    ('option-names-named-optional', "start: n:[x:'a'] | 'b' ;", ['', 'a', 'b'], None, None),
    # more repetitions / nested choices in one rule than there are letters for their variables
    ('many-closures', 'start: ' + ' '.join(["{'a'}"] + ["{'b'}"] * 52 + ["{'a'}+"]) + ' $ ;', ['a', 'a b a', 'a b b a', 'b'], None, None),
    ('many-joins', 'start: ' + ' '.join(["'b'.{'a'}"] * 27 + ["'b'%{'a'}"] * 27) + " 'b' $ ;", ['b', 'a b', 'a b a b'], None, None),
    ('deep-choices', 'start: ' + "('a' | 'b' " * 8 + "'a'" + ')' * 8 + ' $ ;', ['a', 'b a', 'b b a', 'b ' * 8 + 'a', 'b'], None, None),
    # rule parameters of every literal kind
    ('params-literals', "start(None, True, 1.5, 'a b', x): 'a' p q $ ;\n\np(k=None, j=1.5, s='a b'): 'a' ;\n\nq[-1, 0, '']: 'a' ;\n", ['a a a', 'a'], 'tag', None),
    ('params-double-colon', "start: r s $ ;\n\nr(A::B, 2): 'a' ;\n\ns(k='a::b'): 'a' ;\n", ['a a'], 'tag', None),
    ('typed-rule-params', "start::A::B: 'a' $ ;", ['a'], 'tag', None),
    # characters in patterns that a Python literal or a regex escape could mangle
    ('pattern-backspace', "start: /a\x08b/ /[\x08]/ $ ;", ['a\x08b\x08', 'ab'], None, None),
    ('pattern-nul-digit', "start: /a\x001/ $ ;", ['a\x001', 'a\x01'], None, None),
    ('pattern-line-boundaries', "start: /a\u2028b/ /\x85+/ /[\x1c-\x1e]/ /\u2029/ $ ;", ['a\u2028b\x85\x85\x1d\u2029', 'a\nb'], None, None),
    ('pattern-nbsp-astral', "start: /a\xa0b/ /\U0001F600+/ $ ;", ['a\xa0b\U0001F600', 'a b'], None, None),
    ('pattern-escaped-newline', "start: /a\\\nb/ /c\\\\/ $ ;", ['a\nbc\\', 'a\\nbc'], None, None),
    ('directive-control-chars', "@@whitespace :: /[\x85 ]+/\n@@comments :: /\x08.*?\x08/\n\nstart: 'a' 'b' $ ;", ['a\x85b', 'a\x08 x\x08b', 'a\x0bb'], None, None),
    ('token-line-boundaries', "start: 'a\u2028b' '\x85' \"\x1d'\" $ ;", ["a\u2028b\x85\x1d'"], None, None),
    # rule names that meet in the generated class
    ('collide-keyword-and-escaped', "start: if if_ $ ;\n\nif: 'a' ;\n\nif_: 'b' ;\n", ['a b', 'b b'], None,
     'rule-name-collides-in-generated-class'),
    ('collide-config', "start: _config $ ;\n\n_config: 'a' ;\n", ['a'], None, 'rule-name-collides-in-generated-class'),
    ('collide-module', "start: tatsu $ ;\n\ntatsu: 'a' ;\n\nb: 'b' ;\n", ['a'], None, 'rule-name-collides-in-generated-class'),
    ('no-collision-near-misses', "start: config_ parse_ $ ;\n\nconfig_: 'a' ;\n\nparse_: 'b' ;\n", ['a b', 'a'], None, None),
    # rule names that Python spells differently once they are identifiers (NFKC): the start rule is looked up by name
    ('nfkc-start-rule', "\u00b5: 'a' \ufb01 $ ;\n\n\ufb01: 'b' ;\n", ['a b', 'a'], None, None),
    ('nfkc-fullwidth-start', "\uff53tart: 'a' $ ;\n", ['a', 'b'], None, None),
    # an action that returns a plain list
    ('list-action', "start: r 'c' r $ | 'c' r $ | x:r 'c' $ | 'b' x+:r x+:r $ ;\n\nr: 'a' ;\n", ['a c a', 'c a', 'a c', 'b a a'], 'list', None),
    ('list-action-repeats', "start: {r}+ $ | 'c' ','.{r}+ $ | 'b' (r) [r] $ | 'b' 'b' @:r r $ ;\n\nr: 'a' ;\n", ['a a', 'c a,a', 'b a a', 'b a', 'b b a a'], 'list', None),
    ('list-action-named-group', "start: x:('a' r) $ ;\n\nr: 'b' ;\n", ['a b'], 'list', 'ast-differs/list-valued-action-spliced-by-model-under-a-named-group'),
]


def shard_codegen(m, items):
    for name, text, inputs, sem, known in items:
        factory = {'tag': Tagging, 'list': ListAction, None: None}[sem]
        try:
            model = impl.compile_text(text)
        except Exception as ex:  # noqa
            m.violation(f'codegen-case-does-not-compile/{name}/{type(ex).__name__}', grammar=text, error=str(ex)[:300])
            continue
        try:
            pcls, src = load_generated(model)
        except Exception as ex:  # noqa
            sig = f'generated-source-invalid/{known}' if known else f'generated-source-invalid/{name}/{type(ex).__name__}'
            m.violation(sig, grammar=text, error=f'{type(ex).__name__}: {ex}'[:300])
            continue
        m.add('programs')
        m.add('codegen_cases')
        for t in inputs:
            compare(m, text, False, model, pcls, t, f'{name}/defaults', {}, factory, known=known)
            compare(m, text, False, model, pcls, t, f'{name}/parseinfo', {'parseinfo': True}, factory, known=known)


REUSE_GRAMMARS = [
    ('reuse-words', "start: {word}+ $ ;\n\nword: 'ab' | 'a' | num ;\n\nnum: /\\d+/ ;\n", ['a ab 1', 'a  ab', 'aab', 'a b', 'ab1', 'x', '', 'A AB', '1 2']),
    ('reuse-stmt', "start: stmt $ ;\n\nstmt: n:name '=' v:term | n:name ;\n\nterm: name | /\\d+/ ;\n\nname: /[a-z]+/ ;\n", ['x = 1', 'x=y', 'x', 'x =', '= 1', 'x y', '1', 'X = 1']),
]
REUSE_SETTINGS = [{}, {'whitespace': ''}, {'nameguard': False}, {'ignorecase': True}, {'start': 'SECOND'}, {'parseinfo': True}]


def shard_reuse(m, items):
    """One generated parser object used for two parses: whatever the first one was given and however it ended, the second
    gives what the model gives for the second call's own arguments."""
    for name, text, inputs in items:
        model = impl.compile_text(text)
        pcls, _src = load_generated(model)
        second_rule = model.rules[1].name
        m.add('programs')
        for s1 in REUSE_SETTINGS:
            s1 = {k: (second_rule if v == 'SECOND' else v) for k, v in s1.items()}
            for t1 in inputs:
                for s2 in REUSE_SETTINGS[:2] + REUSE_SETTINGS[4:5]:
                    s2 = {k: (second_rule if v == 'SECOND' else v) for k, v in s2.items()}
                    for t2 in inputs:
                        parser = pcls()
                        import contextlib
                        import io
                        try:
                            with contextlib.redirect_stderr(io.StringIO()):
                                parser.parse(t1, **s1)
                            first = 'ok'
                        except Exception:  # noqa
                            first = 'failed'
                        from tatsu.exceptions import FailedParse, ParseException
                        try:
                            with contextlib.redirect_stderr(io.StringIO()):
                                got = ('ok', impl.norm(parser.parse(t2, **s2), False))
                        except FailedParse as e:
                            got = ('fail', type(e).__name__, getattr(e, 'pos', None))
                        except ParseException as e:
                            got = ('fail', type(e).__name__, None)
                        except Exception as e:  # noqa
                            got = ('exc', type(e).__name__, str(e)[:100])
                        want = impl.parse(model, t2, **s2)
                        m.add('evaluations', 3)
                        m.add('transitions', 3)
                        m.add('states')
                        if first == 'failed':
                            m.add('nontrivial')
                        if got[0] != want[0] or (got[0] == 'ok' and got[1] != want[1]):
                            m.violation(f'reused-generated-parser/second-parse-differs-from-the-model/after-a-{first}-parse', grammar=text,
                                        first=[t1, s1], second=[t2, s2], got=got, model=want)


def shard_cuts(m, items, inputs=()):
    for name, exp, extra, _ne, _nx, _b in items:
        g = gs.Grammar(rules=[gs.Rule('start', exp)] + list(extra))
        label = '; '.join(gs.render_rule(r) for r in g.rules)
        try:
            model = impl.compile_text(gs.render_grammar(g))
            pcls, src = load_generated(model)
        except Exception as ex:  # noqa
            m.violation(f'generated-source-invalid/cut/{type(ex).__name__}', grammar=label, error=str(ex)[:300])
            continue
        m.add('programs')
        for t in inputs:
            compare(m, label, False, model, pcls, t, f'cut-{name}', {})


def run(rc):
    quick = rc.tier == 'quick'
    rc.pmap(shard_cuts, [p for p in c05.programs(2, 1 if quick else 2) if not p[0].startswith('include-')],   # (an included rule would have to precede `start`)
            inputs=list(gs.inputs(['1', '2'], 4 if quick else 6)))
    exps = c01.expressions(3 if quick else 4)
    if not quick:
        # 4-node trees: keep those the 3-node corpus cannot contain (names/overrides over composites, joins, nested closures)
        exps = [e for e in exps if gs.size(e) < 4 or gs.kinds(e) & {'named', 'nlist', 'ovr', 'ovrl', 'join', 'pjoin', 'gather', 'pgather', 'skipto'}]
    inputs = list(gs.inputs(['a', 'b', ' '], 3 if quick else 4))
    settings = SETTINGS[:1] + SETTINGS[4:] if quick else SETTINGS
    rc.pmap(shard_exprs, exps, inputs=inputs, settings=settings)
    rc.pmap(shard_features, FEATURE_GRAMMARS, chunk=1, tier=rc.tier)
    rc.pmap(shard_codegen, CODEGEN_CASES, chunk=2)
    rc.pmap(shard_reuse, REUSE_GRAMMARS, chunk=1)
    c = rc.total.counts
    rc.rule = ('every expression tree of the C01 alphabet up to the node bound (plus helper rules) and a family of feature grammars '
               '(directives, keywords, parameters, Python-keyword rule names, upper-case rules, parseinfo, Python-literal-like tokens, quotes, '
               'left recursion, based/included/overridden rules, constants, meta, skip-to, end-of-line, joins) and the C05 cut corpus x all inputs up to a length bound x '
               'parse-time settings {defaults, ignorecase, nameguard off, whitespace override, parseinfo} x semantics {none, tagging, identity}; '
               'model.parse vs loaded generated parser; non-trivial = accepted by the model')
    rc.coverage.update({
        'states': c.get('states', 0), 'transitions': c.get('transitions', 0),
        'traces_validated_against_impl': c.get('states', 0), 'programs': c.get('programs', 0),
        'codegen_rejected_nullable_repeat': c.get('codegen_rejected_nullable_repeat', 0),
    })
    rc.assumptions += ['differential oracle: the in-memory model is the reference for the generated parser (C01 checks the model itself)']


def replay(data):
    import sys
    from ..replay import replay_by_rerun
    return replay_by_rerun(sys.modules[__name__], data)
