"""C12 part (b): parse information is exact.

For every grammar of a named-rule corpus and every input, with parseinfo on,
every dict-like AST in the result carries a parseinfo whose rule is a rule
that returned that value (per the reference evaluator's call log), whose
pos/endpos delimit exactly what that rule consumed after leading whitespace,
and whose line is the line of pos.
"""
from __future__ import annotations

from .. import gramspace as gs
from .. import impl
from ..refsem import Cfg, Ref, Undecided
from . import c01

EXTRA = [
    ('nested', [gs.Rule('start', ('seq', ('named', 'l', ('call', 's')), ('named', 'r', ('clo', ('call', 'u'))))),
                gs.Rule('u', ('seq', ('named', 'k', ('tok', 'b')), ('named', 'v', ('opt', ('call', 's')))))]),
    ('alias', [gs.Rule('start', ('call', 'w')), gs.Rule('w', ('call', 's'))]),
    ('choice', [gs.Rule('start', ('alt', ('seq', ('named', 'p', ('tok', 'b')), ('named', 'q', ('call', 's'))), ('named', 'z', ('call', 's'))))]),
]


def walk(v, path=()):
    """Yield (path, dict node) for every dict-like AST inside a normalised value."""
    if isinstance(v, dict):
        yield path, v
        for k, x in v.items():
            if k not in ('parseinfo', '__parseinfo__'):
                yield from walk(x, path + (k,))
    elif isinstance(v, list):
        for i, x in enumerate(v):
            yield from walk(x, path + (i,))


def strip_pi(v):
    if isinstance(v, dict):
        return {k: strip_pi(x) for k, x in v.items() if k not in ('parseinfo', '__parseinfo__')}
    if isinstance(v, list):
        return [strip_pi(x) for x in v]
    return v


def line_of(text, pos):
    n = 0
    i = 0
    while i < pos:
        c = text[i]
        if c == '\r':
            n += 1
            if i + 1 < pos and text[i + 1] == '\n':
                i += 1
            elif i + 1 < len(text) and text[i + 1] == '\n' and i + 1 == pos:
                pass
        elif c == '\n':
            n += 1
        i += 1
    return n


def check(m, label, g, model, text):
    ref = Ref(g, Cfg())
    try:
        want = ref.parse(text)
    except (Undecided, RecursionError):
        return
    got = impl.parse(model, text, parseinfo=True)
    m.add('evaluations')
    if want[0] != 'ok' or got[0] != 'ok':
        return
    nodes = list(walk(got[1]))
    if not nodes:
        return
    m.add('b_cases')
    records = ref.calls
    for path, node in nodes:
        m.add('nontrivial')
        pi = node.get('parseinfo')
        plain = strip_pi(node)
        if pi is None or node.get('__parseinfo__') != pi:
            m.violation('b/parseinfo-missing', grammar=label, input=text, path=list(path), node=node)
            continue
        rule, pos, endpos, line, endline = pi
        hits = [r for r in records if r[0] == rule and r[3] == plain]
        if not hits:
            m.violation('b/rule-did-not-return-this-node', grammar=label, input=text, path=list(path), parseinfo=pi, node=plain,
                        returned_by=sorted({r[0] for r in records if r[3] == plain}))
            continue
        if not any(r[1] == pos and r[2] == endpos for r in hits):
            m.violation('b/span-differs', grammar=label, input=text, path=list(path), parseinfo=pi,
                        documented_spans=sorted({(r[1], r[2]) for r in hits}))
            continue
        if line != line_of(text, pos):
            m.violation('b/start-line-differs', grammar=label, input=text, path=list(path), parseinfo=pi, want_line=line_of(text, pos))


def shard(m, items, inputs=()):
    for label, g in items:
        try:
            model = impl.compile_text(gs.render_grammar(g))
        except Exception as ex:  # noqa
            m.violation(f'b/compile-failed/{type(ex).__name__}', grammar=label, error=str(ex)[:200])
            continue
        m.add('b_programs')
        for t in inputs:
            check(m, label, g, model, t)


def run_partb(rc):
    quick = rc.tier == 'quick'
    exps = [e for e in c01.expressions(3) if c01.in_language(e) is None
            and (gs.kinds(e) & {'named', 'nlist'} or ('call', 's') in set(gs.subexps(e)))]
    items = [('start: ' + gs.render(e), gs.Grammar(rules=[gs.Rule('start', e)] + c01.HELPERS)) for e in exps]
    for name, rules in EXTRA:
        g = gs.Grammar(rules=rules + c01.HELPERS)
        items.append(('; '.join(gs.render_rule(r) for r in rules), g))
    inputs = list(gs.inputs(['a', 'b', ' ', '\n'], 4 if quick else 5)) + ['\r\na b', ' \r a', 'a\rb', 'b a b\nb a\n']
    rc.pmap(shard, items, inputs=inputs)
    rc.coverage['partb'] = {'programs': rc.count('b_programs'), 'accepted_cases_with_dict_nodes': rc.count('b_cases'),
                            'inputs_per_program': len(inputs)}


def replay(data):
    from ..replay import replay_by_rerun
    from . import c12
    return replay_by_rerun(c12, data)
