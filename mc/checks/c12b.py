def run_partb(rc):
    pass
def replay(data):
    return 0
