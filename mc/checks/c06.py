"""C06 — semantic actions receive each rule's AST and their result replaces it.

Grammars (memo-sensitive hand-written family incl. @nomemo, parameters,
left recursion; plus every C01 expression that calls helper rules) x inputs x
every semantics object of a fixed menu, on the model and the generated parser.
The reference evaluator runs the same actions as call-backs without any
memoisation and yields the expected value and the expected multiset of
(rule, position, ast, params) calls.
"""
from __future__ import annotations

import itertools
from collections import Counter

from .. import gramspace as gs
from .. import impl
from ..refsem import Cfg, Ref, RefSemanticFailure, Undecided
from . import c01, c02

PROPERTY = 'C06'
LEVEL = 'model_checking'


def T(s):
    return ('tok', s)


def C(n):
    return ('call', n)


def R(name, exp, **kw):
    return gs.Rule(name, exp, **kw)


FAMILY = {
    'retry': [R('start', ('alt', ('seq', C('x'), T('a')), ('seq', C('x'), T('b')), C('x'))),
              R('x', ('alt', ('seq', T('a'), C('y')), T('b'))), R('y', ('alt', T('b'), ('void',)))],
    'retry-nomemo': [R('start', ('alt', ('seq', C('x'), T('a')), ('seq', C('x'), T('b')), C('x'))),
                     R('x', ('alt', ('seq', T('a'), C('y')), T('b')), decorators=('nomemo',)), R('y', ('alt', T('b'), ('void',)))],
    'params': [R('start', ('seq', ('pclo', ('alt', C('z'), C('p'), C('q'))), ('eof',))),
               R('p', T('a'), params=('A', 1)), R('q', T('b'), kwparams=(('k', 2),)),
               R('z', ('seq', T('a'), T('b')), params=('Z',), kwparams=(('level', 0), ('flag', False), ('label', ''))) ],
    'named': [R('start', ('seq', ('named', 'l', C('x')), ('named', 'r', ('opt', C('y'))))),
              R('x', ('named', 'v', T('a'))), R('y', T('b'))],
    'lookahead-closure': [R('start', ('seq', ('look', C('x')), ('pclo', C('x')), ('opt', C('y')), ('eof',))),
                          R('x', ('alt', T('a'), ('seq', T('b'), T('a')))), R('y', T('b'))],
    'alias': [R('start', ('seq', C('x'), ('opt', T('b')))), R('x', C('y')), R('y', ('alt', T('a'), T('b')))],
    'pyname': [R('start', ('seq', C('class'), ('opt', C('print')))), R('class', T('a')), R('print', T('b'))],
}
FAMILY['name-keyword'] = [R('start', ('seq', ('pclo', ('alt', C('id'), T('ab'))), ('eof',))),
                          R('id', ('pat', '[ab]+'), decorators=('name',))]
# a rule that fails semantically is retried at the same position (memo hit), then an alternative that does not need it
FAMILY['retry-then-other'] = [R('start', ('alt', ('seq', C('x'), T('b'), T('b')), ('seq', C('x'), ('eof',)), C('w'))),
                              R('x', ('alt', T('a'), T('b'))), R('w', ('seq', ('alt', T('a'), T('b')), ('opt', T('b'))))]
# based rules: own parameters win, otherwise the base's are inherited
FAMILY['based-params'] = [R('start', ('seq', ('pclo', ('alt', C('signed'), C('plain'), C('number'))), ('eof',))),
                          R('number', T('a'), params=('Number',)),
                          R('signed', T('b'), params=('Signed', 'Int'), base='number'),
                          R('plain', T('a'), base='number')]
FAMILY_KEYWORDS = {'name-keyword': ('ab', 'b')}
NONMEMO_RULES = {'retry-nomemo': {'x'}}
LR_FAMILY = {
    'leftrec': [R('start', ('seq', C('e'), ('eof',))), R('e', ('alt', ('seq', C('e'), T('+'), C('t')), C('t'))), R('t', ('pat', r'\d'))],
}

EXC_TYPES = ['KeyError', 'IndexError', 'ValueError', 'TypeError', 'AttributeError', 'AssertionError', 'RuntimeError', 'StopIteration',
             'LookupError', 'Custom', 'TypeError-about-arguments', 'FailedParse-looking-message']


class Custom(Exception):
    pass


def exc_instance(name):
    import builtins
    if name == 'TypeError-about-arguments':
        # what calling a helper with the wrong number of arguments inside an action raises
        return TypeError('helper() takes 2 positional arguments but 3 were given')
    if name == 'FailedParse-looking-message':
        return ValueError("error: expecting 'a'")
    cls = Custom if name == 'Custom' else getattr(builtins, name)
    return cls('raised-by-action')


# ------------------------------------------------------------ semantics objects (implementation side)

def pyname(n):
    import keyword
    return n + '_' if keyword.iskeyword(n) or n in ('print', 'type', 'list', 'dict', 'set', 'match', 'case') else n


class PerRule:
    """A semantics object with one method per rule name (found by name, not through _default),
    all delegating to self.handle(rule, ast, args, kwargs)."""

    def __init__(self, rules):
        def make(r):
            def method(ast, *args, **kwargs):
                return self.handle(r, ast, args, kwargs)
            return method
        for r in rules:
            meth = make(r)
            setattr(self, r, meth)
            setattr(self, pyname(r), meth)

    def handle(self, rule, ast, args, kwargs):
        return ast


class Tagging(PerRule):
    def __init__(self, rules):
        super().__init__(rules)
        self.log = []

    def handle(self, rule, ast, args, kwargs):
        pi = kwargs.pop('parseinfo', None)
        key = (rule, pi.pos, pi.endpos) if pi is not None else (rule, None, None)
        self.log.append((key, impl.norm(ast), tuple(args), tuple(sorted(kwargs.items()))))
        return ('<T>', rule, ast)


class Identity(PerRule):
    pass


class DefaultOnly:
    def __init__(self):
        self.n = 0

    def _default(self, ast):
        self.n += 1
        return ast


class FailOn(PerRule):
    def __init__(self, rules, rule, value):
        super().__init__(rules)
        self.rule, self.value = rule, value

    def handle(self, rule, ast, args, kwargs):
        self.calls = getattr(self, 'calls', Counter())
        self.calls[rule] += 1
        if rule == self.rule and impl.norm(ast) == self.value:
            from tatsu.exceptions import FailedSemantics
            raise FailedSemantics(f'{self.rule} rejects {ast!r}')
        return ast


class RaiseIn(PerRule):
    def __init__(self, rules, rule, exc):
        super().__init__(rules)
        self.rule, self.exc = rule, exc

    def handle(self, rule, ast, args, kwargs):
        if rule == self.rule:
            raise self.exc
        return ast


class Declared:
    """Methods that declare the rule's parameters."""

    def __init__(self):
        self.seen = []

    def p(self, ast, name, number):
        self.seen.append(('p', name, number))
        return ('P', ast)

    def q(self, ast, k=None):
        self.seen.append(('q', k))
        return ('Q', ast)

    def z(self, ast, typename, level=-1, flag=None, label='unset', parseinfo='unset'):
        # keyword parameters with falsy values, and the parseinfo keyword (None while parseinfo is off)
        self.seen.append(('z', typename, level, flag, label, parseinfo))
        return ('Z', ast, level, flag, label, parseinfo)

    def _default(self, ast, *a, **k):
        return ast


# ------------------------------------------------------------ reference side

def ref_run(g, text, kind, arg=None, start=None):
    """-> (outcome, call log) from the reference evaluator with actions as call-backs."""
    log = []

    def action(rule, value, q, p2):
        params, kwparams = rule.params, rule.kwparams
        if rule.base and not params:
            base = next(r for r in g.rules if r.name == rule.base)      # documented: parameters are inherited unless given
            params, kwparams = base.params, (kwparams or base.kwparams)
        log.append(((rule.name, q, p2), value, tuple(params), tuple(sorted(kwparams))))
        if kind == 'tagging':
            return ['<tuple>', '<T>', rule.name, value]
        if kind == 'failon' and rule.name == arg[0] and value == arg[1]:
            raise RefSemanticFailure()
        if kind == 'raise' and rule.name == arg:
            raise RaisedInAction()
        if kind == 'declared' and rule.name == 'p':
            return ['<tuple>', 'P', value]
        if kind == 'declared' and rule.name == 'q':
            return ['<tuple>', 'Q', value]
        if kind == 'declared' and rule.name == 'z':
            return ['<tuple>', 'Z', value, 0, False, '', None]
        return value

    ref = Ref(g, Cfg(keywords=tuple(g.keywords or ())), actions=action)
    try:
        out = ref.parse(text, start=start)
    except RaisedInAction:
        out = ('raised',)
    return out, log


class RaisedInAction(Exception):
    pass


def same(want, got):
    return (want[0] == 'fail' and got[0] == 'fail') or (want[0] == 'ok' and got[0] == 'ok' and got[1] == want[1])


def run_impl(which, model, pcls, text, **kw):
    if which == 'model':
        return impl.parse(model, text, **kw)
    return c02.generated_parse(pcls, text, **kw)


def check_grammar(m, name, g, inputs, nomemo=frozenset(), is_lr=False, menu=('none', 'identity', 'tagging', 'default-only', 'failon', 'raise', 'declared')):
    label = gs.render_grammar(g)
    try:
        model = impl.compile_text(label)
        pcls, _src = c02.load_generated(model)
    except Exception as ex:  # noqa
        m.violation(f'compile-or-codegen-failed/{type(ex).__name__}', grammar=label, error=str(ex)[:300])
        return
    m.add('programs')
    rules = [r.name for r in g.rules]
    for text in inputs:
        try:
            base, _ = ref_run(g, text, 'none')
        except (Undecided, RecursionError):
            m.add('undecided_cases')
            continue
        if base[0] == 'ok':
            m.add('nontrivial')
        for which in ('model', 'generated'):
            m.add('states')
            # none and identity
            r0 = run_impl(which, model, pcls, text)
            m.add('evaluations')
            m.add('transitions')
            if not same(base, r0):
                m.add('skipped_base_mismatch')   # the model itself differs from the reference: C01/C02's business
                continue
            if 'identity' in menu:
                r1 = run_impl(which, model, pcls, text, semantics=Identity(rules))
                m.add('evaluations')
                if r1 != r0:
                    m.violation(f'identity-not-transparent/{which}', grammar=label, input=text, none=r0, identity=r1)
            if 'default-only' in menu:
                d = DefaultOnly()
                r1 = run_impl(which, model, pcls, text, semantics=d)
                m.add('evaluations')
                if r1 != r0:
                    m.violation(f'default-only-not-transparent/{which}', grammar=label, input=text, none=r0, got=r1)
            # tagging: value and call multiset
            if 'tagging' in menu:
                try:
                    want, wlog = ref_run(g, text, 'tagging')
                except (Undecided, RecursionError):
                    continue
                sem = Tagging(rules)
                got = run_impl(which, model, pcls, text, semantics=sem, parseinfo=True, _keep_parseinfo=False) if which == 'model' else \
                    c02.generated_parse(pcls, text, semantics=sem, parseinfo=True)
                if which == 'generated' and got[0] == 'ok':
                    got = ('ok', strip_pi(got[1]))
                m.add('evaluations')
                if not same(want, got):
                    m.violation(f'tagged-value-differs/{which}', grammar=label, input=text, got=got, want=want)
                elif not is_lr:
                    wc = Counter((k, canon(v), p, kp) for k, v, p, kp in wlog)
                    gc = Counter((k, canon(strip_pi(v)), p, kp) for k, v, p, kp in sem.log)
                    for key, n in gc.items():
                        if n > wc.get(key, 0):
                            m.violation(f'action-called-more-than-without-memo/{which}', grammar=label, input=text, call=str(key), times=n, reference=wc.get(key, 0))
                    for key, n in wc.items():
                        if gc.get(key, 0) < 1:
                            m.violation(f'action-not-called-for-successful-rule/{which}', grammar=label, input=text, call=str(key))
                        elif key[0][0] in nomemo and gc[key] != n:
                            m.violation(f'nomemo-rule-not-reevaluated/{which}', grammar=label, input=text, call=str(key), times=gc[key], reference=n)
            # failing on a predicate
            if 'failon' in menu:
                for rule in rules:
                    for value in ('a', 'b', ['a', 'b'], None, {'v': 'a'}):
                        want, flog = ref_run(g, text, 'failon', (rule, value))
                        fsem = FailOn(rules, rule, value)
                        got = run_impl(which, model, pcls, text, semantics=fsem, parseinfo=True, **({'_keep_parseinfo': False} if which == 'model' else {}))
                        if nomemo and not is_lr:
                            refcalls = Counter(k[0][0] for k in flog)
                            for nr in nomemo:
                                if getattr(fsem, 'calls', Counter())[nr] != refcalls[nr]:
                                    m.violation(f'nomemo-rule-action-count-differs/{which}', grammar=label, input=text, failing=[rule, value],
                                                rule=nr, times=getattr(fsem, 'calls', Counter())[nr], reference=refcalls[nr])
                        if which == 'generated' and got[0] == 'ok':
                            got = ('ok', strip_pi(got[1]))
                        m.add('evaluations')
                        if not same(want, got):
                            m.violation(f'failed-semantics-not-a-mismatch/{which}', grammar=label, input=text, failing=[rule, value], got=got, want=want)
            # raising arbitrary exceptions
            if 'raise' in menu:
                for rule in rules:
                    want, _ = ref_run(g, text, 'raise', rule)
                    for en in EXC_TYPES:
                        exc = exc_instance(en)
                        caught = None
                        res = None
                        try:
                            import contextlib, io
                            with contextlib.redirect_stderr(io.StringIO()):
                                if which == 'model':
                                    res = ('ok', model.parse(text, semantics=RaiseIn(rules, rule, exc), parseinfo=True))
                                else:
                                    res = ('ok', pcls().parse(text, semantics=RaiseIn(rules, rule, exc), parseinfo=True))
                        except BaseException as e:  # noqa
                            caught = e
                        m.add('evaluations')
                        if want[0] == 'raised':
                            if caught is not exc:
                                m.violation(f'exception-not-propagated/{en}/{which}', grammar=label, input=text, rule=rule,
                                            got=(type(caught).__name__ if caught is not None else 'returned a value'))
                        else:
                            from tatsu.exceptions import ParseException
                            if caught is exc:
                                m.violation(f'action-called-where-reference-does-not/{which}', grammar=label, input=text, rule=rule)
                            elif caught is not None and not isinstance(caught, ParseException):
                                m.violation(f'foreign-exception/{type(caught).__name__}/{which}', grammar=label, input=text, rule=rule)
            if 'declared' in menu and name == 'params':
                want, _ = ref_run(g, text, 'declared')
                d = Declared()
                got = run_impl(which, model, pcls, text, semantics=d)
                m.add('evaluations')
                if not same(want, got):
                    m.violation(f'declared-params-value-differs/{which}', grammar=label, input=text, got=got, want=want)
                bad = [s for s in d.seen if s not in (('p', 'A', 1), ('q', 2), ('z', 'Z', 0, False, '', None))]
                if bad:
                    m.violation(f'declared-params-wrong/{which}', grammar=label, input=text, seen=bad)


# ------------------------------------------------------------ kinds of semantics objects x short histories

def object_kinds():
    """name -> factory of a recording semantics object.  What varies is only how the *object* behaves as a Python
    value (equality, hashability, truthiness, attribute storage) — none of which the property lets matter."""
    import dataclasses

    class Base:
        def _note(self, what, ast):
            self.log.append((what, repr(ast)))

        def x(self, ast):
            self._note('x', ast)
            return ('X', ast)

        def _default(self, ast, *a, **k):
            self._note('_default', ast)
            return ast

    class Plain(Base):
        def __init__(self):
            self.log = []

    @dataclasses.dataclass
    class EqUnhashable(Base):           # dataclass default: __eq__ by fields, __hash__ = None
        log: list = dataclasses.field(default_factory=list)

    class EqualHash(Base):              # value semantics: every instance equals every other
        def __init__(self):
            self.log = []

        def __eq__(self, other):
            return type(other) is type(self)

        def __hash__(self):
            return 7

    class Falsy(Base):                  # a container-like semantics (symbol table) that is empty
        def __init__(self):
            self.log = []

        def __len__(self):
            return 0

    class Slots(Base):
        __slots__ = ('log',)

        def __init__(self):
            self.log = []

    return {'plain': Plain, 'eq-unhashable-dataclass': EqUnhashable, 'all-instances-equal': EqualHash, 'falsy-empty-container': Falsy,
            'slots': Slots}
    # a class used as the semantics object is rejected by TatSu on purpose ("semantics must be an object instance") and is not a kind here


def shard_objects(m, items, inputs=()):
    kinds = object_kinds()
    for name in items:
        g = gs.Grammar(rules=FAMILY[name])
        label = gs.render_grammar(g)
        model = impl.compile_text(label)
        pcls, _src = c02.load_generated(model)
        for which in ('model', 'generated'):
            for text in inputs:
                ref_obj = kinds['plain']()
                want = run_impl(which, model, pcls, text, semantics=ref_obj)
                wlog = list(ref_obj.log)
                if wlog:
                    m.add('nontrivial')
                for kname, factory in kinds.items():
                    # history of two parses with two objects of one kind: each object sees exactly its own parse
                    first = factory()
                    r1 = run_impl(which, model, pcls, text, semantics=first)
                    log1 = list(first.log)
                    second = factory()
                    r2 = run_impl(which, model, pcls, text, semantics=second)
                    m.add('evaluations', 2)
                    m.add('states')
                    m.add('transitions', 2)
                    where = dict(grammar=label, input=text, kind=kname)
                    for tag, r, lg in (('first', r1, log1), ('second', r2, list(second.log))):
                        if r[0] == 'exc':
                            m.violation(f'object-kind/{kname}/parse-raises/{r[1]}/{which}', which_parse=tag, error=r[2][:120], **where)
                            break
                        if r != want:
                            m.violation(f'object-kind/{kname}/result-differs-from-plain-object/{which}', which_parse=tag, got=r, want=want, **where)
                            break
                        if lg != wlog:
                            m.violation(f'object-kind/{kname}/actions-not-called-on-the-supplied-object/{which}', which_parse=tag, calls=lg[:6], want=wlog[:6], **where)
                            break
                    else:
                        if first is not second and list(first.log) != log1:
                            m.violation(f'object-kind/{kname}/later-parse-called-actions-of-earlier-object/{which}', **where)


# ------------------------------------------------------------ how the arguments of an action are bound

BINDING_GRAMMAR = ("start: int hex len plain dflt kwonly dflt7 kw0 $ ;\n\nint[A, 1]: 'a' ;\n\nhex(k=2): 'b' ;\n\nlen[B]: 'a' ;\n\nplain[C, 3]: 'b' ;\n\n"
                   "dflt: 'a' ;\n\nkwonly: 'b' ;\n\ndflt7[7]: 'a' ;\n\nkw0(flag=0): 'b' ;\n")


class Binding:
    """Actions named like builtins, with defaults and with keyword-only parameters: each records what it was called with."""

    def __init__(self):
        self.log = []

    def _rec(self, name, ast, a, k):
        self.log.append((name, ast, tuple(a), tuple(sorted((x, y) for x, y in k.items() if x != 'parseinfo'))))
        return ast

    def int(self, ast, *a, **k):
        return self._rec('int', ast, a, k)

    def hex(self, ast, *a, **k):
        return self._rec('hex', ast, a, k)

    def len(self, ast, *a, **k):
        return self._rec('len', ast, a, k)

    def plain(self, ast, *a, **k):
        return self._rec('plain', ast, a, k)

    def dflt(self, ast, extra=5):
        return self._rec('dflt', ast, (extra,), {})

    def dflt7(self, ast, extra=5):
        return self._rec('dflt7', ast, (extra,), {})

    def kwonly(self, ast, *, flag=True):
        return self._rec('kwonly', ast, (), {'flag': flag})

    def kw0(self, ast, *, flag=True):
        return self._rec('kw0', ast, (), {'flag': flag})


BINDING_WANT = [('int', 'a', ('A', 1), ()), ('hex', 'b', (), (('k', 2),)), ('len', 'a', ('B',), ()), ('plain', 'b', ('C', 3), ()),
                ('dflt', 'a', (5,), ()), ('kwonly', 'b', (), (('flag', True),)), ('dflt7', 'a', (7,), ()), ('kw0', 'b', (), (('flag', 0),))]


def binding_part(rc):
    """Every action is called with the AST and the rule's declared parameters, whatever the action is called and
    whatever defaults its own signature declares (parameters the rule does not declare keep their defaults)."""
    model = impl.compile_text(BINDING_GRAMMAR)
    pcls, _src = c02.load_generated(model)
    for which in ('model', 'generated'):
        sem = Binding()
        try:
            import contextlib
            import io
            with contextlib.redirect_stderr(io.StringIO()):
                (model if which == 'model' else pcls()).parse('a b a b a b a b', semantics=sem)
            got = sem.log
        except Exception as ex:  # noqa
            got = f'{type(ex).__name__}: {ex}'[:200]
        rc.add('evaluations')
        rc.add('nontrivial')
        if got != BINDING_WANT:
            bad = [g for g, w in zip(got, BINDING_WANT) if g != w] if isinstance(got, list) else got
            rc.violation(f'action-arguments-differ-from-the-declared-parameters/{which}', grammar=BINDING_GRAMMAR, got=bad, want=[w for g, w in zip(got, BINDING_WANT) if g != w] if isinstance(got, list) else BINDING_WANT)


# ------------------------------------------------------------ values that compare equal across types

TYPED_GRAMMAR = ("start: {value}+ $ ;\n\nvalue: t | o | f | z | n | e ;\n\nt: 'a' ;\n\no: 'b' ;\n\nf: 'c' ;\n\n"
                 "z: 'd' ;\n\nn: 'e' ;\n\ne: 'f' ;\n")
TYPED_VALUES = {'a': True, 'b': 1, 'c': 1.0, 'd': False, 'e': 0, 'f': 0.0}


class Converting:
    """Inner rules turn their text into values that are equal across types (True == 1 == 1.0, False == 0 == 0.0);
    the action of `value` returns its argument, so it must be indistinguishable from no action on `value`."""

    def t(self, ast):
        return True

    def o(self, ast):
        return 1

    def f(self, ast):
        return 1.0

    def z(self, ast):
        return False

    def n(self, ast):
        return 0

    def e(self, ast):
        return 0.0


class ConvertingWithIdentity(Converting):
    def value(self, ast):
        return ast

    def start(self, ast):
        return ast


def shard_typed(m, items):
    """What an action receives and what it returns is passed on as it is, type included."""
    model = impl.compile_text(TYPED_GRAMMAR)
    pcls, _src = c02.load_generated(model)
    for toks in items:
        text = ' '.join(toks)
        want = repr([TYPED_VALUES[t] for t in toks])
        for which in ('model', 'generated'):
            for sname, factory in (('converting', Converting), ('converting+identity', ConvertingWithIdentity)):
                import contextlib
                import io
                try:
                    with contextlib.redirect_stderr(io.StringIO()):
                        v = model.parse(text, semantics=factory()) if which == 'model' else pcls().parse(text, semantics=factory())
                    got = repr(list(v) if isinstance(v, list) else v)
                except Exception as ex:  # noqa
                    got = f'{type(ex).__name__}'
                m.add('evaluations')
                m.add('states')
                m.add('transitions')
                m.add('nontrivial')
                if got != want:
                    m.violation(f'action-value-not-passed-on-as-it-is/{sname}/{which}', grammar=TYPED_GRAMMAR, input=text, got=got, want=want)


# ------------------------------------------------------------ one parser object, another semantics object each parse

def shard_reuse(m, items, inputs=()):
    """A generated parser object is used for several parses, each with its own semantics argument (or none): every parse
    gives what a fresh parser object gives with that argument, and calls only the actions of the object it was given."""
    kinds = object_kinds()
    menu = {'none': lambda: None, 'plain': kinds['plain'], 'plain-2': kinds['plain'], 'slots': kinds['slots']}
    for name in items:
        g = gs.Grammar(rules=FAMILY[name])
        label = gs.render_grammar(g)
        model = impl.compile_text(label)
        pcls, _src = c02.load_generated(model)

        def one(parser, text, sem):
            import contextlib
            import io
            from tatsu.exceptions import ParseException
            try:
                with contextlib.redirect_stderr(io.StringIO()):
                    return ('ok', impl.norm(parser.parse(text, **({'semantics': sem} if sem is not None else {}))))
            except ParseException as e:
                return ('fail', type(e).__name__)
            except Exception as e:  # noqa
                return ('exc', type(e).__name__, str(e)[:100])

        for text in inputs:
            fresh = {}
            for k, f in menu.items():
                sem = f()
                fresh[k] = (one(pcls(), text, sem), list(sem.log) if sem is not None else None)
            for hist in itertools.product(menu, repeat=2):
                parser = pcls()
                sems = []
                for step, k in enumerate(hist):
                    sem = menu[k]()
                    before = [list(s.log) for s in sems]
                    r = one(parser, text, sem)
                    m.add('evaluations')
                    m.add('transitions')
                    if step:
                        m.add('nontrivial')
                    lg = list(sem.log) if sem is not None else None
                    if (r, lg) != fresh[k]:
                        m.violation('reused-parser-object/parse-differs-from-fresh-parser', grammar=label, input=text, history=list(hist), step=step,
                                    got=[r, lg and lg[:4]], want=[fresh[k][0], fresh[k][1] and fresh[k][1][:4]])
                        break
                    if [list(s.log) for s in sems] != before:
                        m.violation('reused-parser-object/actions-of-an-earlier-semantics-object-called', grammar=label, input=text, history=list(hist), step=step)
                        break
                    if sem is not None:
                        sems.append(sem)
                m.add('states')


def canon(v):
    import json
    return json.dumps(v, sort_keys=True, default=repr)


def strip_pi(v):
    if isinstance(v, dict):
        return {k: strip_pi(x) for k, x in v.items() if k not in ('parseinfo', '__parseinfo__')}
    if isinstance(v, list):
        return [strip_pi(x) for x in v]
    return v


def shard_family(m, items):
    for name, rules, inputs, is_lr in items:
        g = gs.Grammar(rules=rules, keywords=FAMILY_KEYWORDS.get(name, ()))
        check_grammar(m, name, g, inputs, nomemo=frozenset(NONMEMO_RULES.get(name, ())), is_lr=is_lr)
        impl.rule_reach(m, 'family-rules', name, impl.compile_text(gs.render_grammar(g)), inputs)
        m.sample({'grammar': gs.render_grammar(g), 'inputs': len(inputs)})


def shard_exprs(m, items, inputs=()):
    for e in items:
        g = gs.Grammar(rules=[gs.Rule('start', e)] + c01.HELPERS)
        check_grammar(m, 'expr', g, inputs, menu=('none', 'identity', 'tagging'))


def run(rc):
    quick = rc.tier == 'quick'
    ab = list(gs.inputs(['a', 'b', ' '], 4 if quick else 5))
    lr = [''.join(t) for n in range(0, 5 if quick else 7) for t in itertools.product(['1', '+'], repeat=n)]
    items = []
    for name, rules in FAMILY.items():
        for i in range(0, len(ab), 16):
            items.append((name, rules, ab[i:i + 16], False))
    for name, rules in LR_FAMILY.items():
        for i in range(0, len(lr), 8):
            items.append((name, rules, lr[i:i + 8], True))
    rc.pmap(shard_family, items, chunk=1)
    rc.pmap(shard_objects, ['retry', 'named', 'alias'], chunk=1, inputs=list(gs.inputs(['a', 'b', ' '], 3 if quick else 4)))
    binding_part(rc)
    typed = [t for n in range(1, 4 if quick else 5) for t in itertools.product(sorted(TYPED_VALUES), repeat=n)]
    rc.pmap(shard_typed, typed)
    rc.pmap(shard_reuse, ['retry', 'named', 'alias'], chunk=1, inputs=list(gs.inputs(['a', 'b', ' '], 3 if quick else 4)))
    exps = [e for e in c01.expressions(3) if c01.in_language(e) is None and 'call' in gs.kinds(e)]
    rc.pmap(shard_exprs, exps, inputs=list(gs.inputs(['a', 'b', ' '], 3 if quick else 4)))
    c = rc.total.counts
    rc.rule = (f'{len(FAMILY) + len(LR_FAMILY)} hand-written grammars (retry after backtracking, @nomemo, parameters, named elements, lookahead+closure, alias, '
               'Python-keyword rule names, left recursion) x all inputs up to a length bound x semantics {none, identity, _default only, tagging with call log, '
               f'FailedSemantics on (rule, value) predicates, {len(EXC_TYPES)} exception types raised from each rule, methods declaring parameters}}, model and generated parser; '
               'plus every C01 expression calling helper rules x inputs x {none, identity, tagging}; plus kinds of semantics *objects* (plain, dataclass with '
               'field equality and no hash, all instances equal, falsy empty container, __slots__) x two-parse histories with two '
               'objects of the kind: results and call logs as for a plain object, each object sees its own parse only; plus actions returning values equal across types (True/1/1.0, False/0/0.0) under an identity action; plus one generated parser object reused for two parses with every pair of semantics arguments {none, object, another object, slotted object}; non-trivial = accepted input')
    rc.coverage.update({'states': c.get('states', 0), 'transitions': c.get('transitions', 0),
                        'traces_validated_against_impl': c.get('states', 0), 'programs': c.get('programs', 0)})
    rc.assumptions += ['reference: the evaluator runs actions as call-backs with no memoisation; the implementation may call an action fewer times (memo) but at least once per distinct successful (rule, position)',
                       'actions are located through _default (method lookup by rule name is exercised by the tagging/declared menus)']


def replay(data):
    import sys
    from ..replay import replay_by_rerun
    return replay_by_rerun(sys.modules[__name__], data)
