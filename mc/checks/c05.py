"""C05 — a cut commits within its documented scope and nowhere else.

Profile "cut": scope bodies (sequences of 1..k tokens) placed in every context
that opens a cut scope (choice option, optional, closure/positive closure
iteration, join/gather iteration, choice nested in a group, optional nested in
a closure, helper-rule body called from a choice), with one or two cuts
inserted at every position of the bodies.  Oracles:
 (1) the reference evaluator with the documentation's equivalences;
 (2) wherever the documented semantics say no committed scope fails, G and G
     with every cut removed behave identically (two implementation runs);
 (3) model-free: [x], {x}, {x}+ rewritten into helper rules exactly as
     docs/syntax.rst states must accept/reject and consume identically.
"""
from __future__ import annotations

import itertools

from .. import gramspace as gs
from .. import impl
from ..refsem import Cfg, Ref, Undecided
from . import c01

PROPERTY = 'C05'
LEVEL = 'model_checking'

T1, T2 = ('tok', '1'), ('tok', '2')
CUT = ('cut',)


def bodies(maxlen):
    out = []
    for n in range(1, maxlen + 1):
        for t in itertools.product((T1, T2), repeat=n):
            out.append(t)
    return out


def seq(items):
    items = tuple(items)
    return items[0] if len(items) == 1 else ('seq',) + items


def with_cuts(body, positions):
    """Insert a cut before item index p for each p in positions (p may be len)."""
    out = []
    for i, it in enumerate(body):
        if i in positions:
            out.append(CUT)
        out.append(it)
    if len(body) in positions:
        out.append(CUT)
    return tuple(out)


# Each context: name, number of bodies, builder(list of item-tuples) -> (start exp, extra rules)
def ctx_choice(b):
    return ('alt', seq(b[0]), seq(b[1])), []


def ctx_optional(b):
    return ('seq', ('opt', seq(b[0])), *b[1]), []


def ctx_closure(b):
    return ('seq', ('clo', seq(b[0])), *b[1]), []


def ctx_pclosure(b):
    return ('seq', ('pclo', seq(b[0])), *b[1]), []


def ctx_join(b):
    return ('seq', ('join', T2, seq(b[0])), *b[1]), []


def ctx_gather(b):
    return ('seq', ('gather', T2, seq(b[0])), *b[1]), []


def ctx_nested_choice(b):
    # a choice nested in a group inside an option of an outer choice
    return ('alt', ('seq', ('grp', ('alt', seq(b[0]), seq(b[1]))), T1), seq(b[2])), []


def ctx_opt_in_closure(b):
    return ('seq', ('clo', ('seq', ('opt', seq(b[0])), T1)), *b[1]), []


def ctx_rule(b):
    # the cut lives in helper rule h; the caller's other alternative must still be tried
    return ('alt', ('seq', ('call', 'h'), T1), seq(b[2])), [gs.Rule('h', ('alt', seq(b[0]), seq(b[1])))]


def ctx_rule_body(b):
    # cut directly in a rule body (no choice): A -> alpha == A -> alpha | fail
    return ('alt', ('seq', ('call', 'h'), T2), seq(b[1])), [gs.Rule('h', seq(b[0]))]


def ctx_closure_in_choice(b):
    return ('alt', ('seq', ('clo', seq(b[0])), T2), seq(b[1])), []


def ctx_pclosure_in_choice(b):
    # a cut inside a positive repetition commits that iteration only: once the repetition has succeeded, a later
    # failure in the same option leaves the other option open
    return ('alt', ('seq', ('pclo', seq(b[0])), T2), seq(b[1])), []


def ctx_pjoin_in_choice(b):
    return ('alt', ('seq', ('pjoin', T2, seq(b[0])), T1), seq(b[1])), []


def ctx_pgather_in_optional(b):
    return ('seq', ('opt', ('seq', ('pgather', T2, seq(b[0])), T1)), *b[1]), []


def ctx_closure_in_optional(b):
    # [ {x} ]: the closure fails once a committed iteration fails, and only the optional around it takes that back
    # ([x] == B -> x | (): the cut stays inside B)
    return ('seq', ('opt', ('clo', seq(b[0]))), *b[1]), []


def ctx_optional_in_optional(b):
    return ('seq', ('opt', ('opt', seq(b[0]))), *b[1]), []


def ctx_join_in_optional(b):
    return ('seq', ('opt', ('join', T2, seq(b[0]))), *b[1]), []


def ctx_pjoin_nullable_sep(b):
    # the separator may match nothing; the join still commits after it (s%{e}+ == e {s ~ e})
    return ('alt', ('seq', ('pjoin', ('opt', T2), seq(b[0])), T1), seq(b[1])), []


def ctx_gather_nullable_sep(b):
    return ('seq', ('gather', ('grp', ('alt', T2, ('look', T1))), seq(b[0])), *b[1]), []


def ctx_include_in_closure_in_optional(b):
    # the cut sits in a rule whose right hand side is included: >inc stands for that right hand side, cut and all
    return ('seq', ('opt', ('clo', ('inc', 'inc1'))), *b[1]), [gs.Rule('inc1', seq(b[0]))]


def ctx_include_in_choice(b):
    return ('alt', ('seq', ('inc', 'inc1'), T1), seq(b[1])), [gs.Rule('inc1', seq(b[0]))]


def ctx_cut_after_abandoned_cut(b):
    # the first option passes a cut (a fixed one, inside a nested choice) further on in the text and is given up in the regular way;
    # the second option then passes its own cut at an earlier position: that cut commits like any other
    nested = ('grp', ('alt', ('seq', T1, CUT, T2), ('seq', T1, T1)))
    return ('alt', ('seq', T1, nested, T2), seq(b[0]), seq(b[1])), []


def expansion(name, b):
    """The documentation's own equivalences as grammars (docs/syntax.rst, section on ~):
    [x] == B -> x | ();  {x} == B -> x B | ();  {x}+ == B -> x B | x.  Returns (start exp, rules) or None."""
    x = seq(b[0])
    if name == 'optional':
        return ('seq', ('call', 'bb'), *b[1]), [gs.Rule('bb', ('alt', x, ('void',)))]
    if name == 'closure':
        return ('seq', ('call', 'bb'), *b[1]), [gs.Rule('bb', ('alt', ('seq', *b[0], ('call', 'bb')), ('void',)))]
    if name == 'pclosure':
        # docs: {x}+ == B -> x B | x.  Taken literally a body that ends after a cut could never match once
        # (the failure of the inner B after the cut would commit the outer option), so the positive closure
        # is expanded as "x followed by the closure": B -> x C ; C -> x C | ()
        return ('seq', ('call', 'bb'), *b[1]), [gs.Rule('bb', ('seq', *b[0], ('call', 'cc'))), gs.Rule('cc', ('alt', ('seq', *b[0], ('call', 'cc')), ('void',)))]
    return None


CONTEXTS = [
    ('choice', 2, ctx_choice), ('optional', 2, ctx_optional), ('closure', 2, ctx_closure),
    ('pclosure', 2, ctx_pclosure), ('join', 2, ctx_join), ('gather', 2, ctx_gather),
    ('nested-choice', 3, ctx_nested_choice), ('opt-in-closure', 2, ctx_opt_in_closure),
    ('rule', 3, ctx_rule), ('rule-body', 2, ctx_rule_body), ('closure-in-choice', 2, ctx_closure_in_choice),
    ('pclosure-in-choice', 2, ctx_pclosure_in_choice),
    ('closure-in-optional', 2, ctx_closure_in_optional), ('optional-in-optional', 2, ctx_optional_in_optional),
    ('join-in-optional', 2, ctx_join_in_optional),
    ('pjoin-nullable-sep', 2, ctx_pjoin_nullable_sep), ('gather-nullable-sep', 2, ctx_gather_nullable_sep),
    ('include-in-closure-in-optional', 2, ctx_include_in_closure_in_optional), ('include-in-choice', 2, ctx_include_in_choice),
    ('cut-after-abandoned-cut', 2, ctx_cut_after_abandoned_cut),
]

# which body slots may receive cuts, per context (tails that are spliced into the
# start rule's own sequence would put a cut at rule level: allowed too)
CUT_SLOTS = {
    'choice': (0, 1), 'optional': (0,), 'closure': (0,), 'pclosure': (0,), 'join': (0,), 'gather': (0,),
    'nested-choice': (0, 1), 'opt-in-closure': (0,), 'rule': (0, 1), 'rule-body': (0,), 'closure-in-choice': (0,),
    'pclosure-in-choice': (0,), 'closure-in-optional': (0,), 'optional-in-optional': (0,), 'join-in-optional': (0,),
    'pjoin-nullable-sep': (0,), 'gather-nullable-sep': (0,), 'include-in-closure-in-optional': (0,), 'include-in-choice': (0,),
    'cut-after-abandoned-cut': (0,),
}


def programs(maxbody, maxcuts):
    bs = bodies(maxbody)
    for name, nb, build in CONTEXTS:
        small = bodies(min(maxbody, 2))
        for combo in itertools.product(*([bs] + [small] * (nb - 1))):
            # cut placements: choose up to maxcuts (slot, position) pairs
            places = [(s, p) for s in CUT_SLOTS[name] for p in range(1, len(combo[s]) + 1)]
            for k in range(1, maxcuts + 1):
                for chosen in itertools.combinations(places, k):
                    b = list(combo)
                    for s in set(sl for sl, _ in chosen):
                        b[s] = with_cuts(combo[s], {p for sl, p in chosen if sl == s})
                    exp, extra = build(b)
                    nocut_exp, nocut_extra = build(list(combo))
                    yield name, exp, extra, nocut_exp, nocut_extra, tuple(b)


def mk(exp, extra):
    # (an included rule has to be defined before the rule that includes it; the wrapper rule stays first: it is the start)
    inc = [r for r in extra if r.name.startswith('inc')]
    return gs.Grammar(rules=[c01.WRAP[0]] + inc + [gs.Rule('start', exp)] + [r for r in extra if r not in inc] + [c01.WRAP[1]])


class CountingRef(Ref):
    """Reference evaluator that also reports whether a committed scope failed
    (the cut actually pruned something) in the last parse."""


def shard(m, items, inputs=()):
    for name, exp, extra, nexp, nextra, bodies_with_cuts in items:
        g = mk(exp, extra)
        gn = mk(nexp, nextra)
        ex = expansion(name, bodies_with_cuts)
        model_ex = None
        if ex is not None:
            try:
                model_ex = impl.compile_text(gs.render_grammar(mk(ex[0], ex[1])))
            except Exception as e2:  # noqa
                m.violation(f'expansion-does-not-compile/{name}', grammar=gs.render(ex[0]), error=str(e2)[:200])
        try:
            model = impl.compile_text(gs.render_grammar(g))
            model_nc = impl.compile_text(gs.render_grammar(gn))
        except Exception as ex:  # noqa
            m.violation(f'compile-failed/{type(ex).__name__}', grammar=gs.render(exp), error=str(ex)[:200])
            continue
        m.add('programs')
        m.note('contexts', name)
        ref = Ref(g, Cfg())
        ref_nc = Ref(gn, Cfg())
        pruned = 0
        gtxt = '; '.join(gs.render_rule(r) for r in g.rules[1:-1])
        for t in inputs:
            try:
                want = ref.parse(t, start='start')
                want_nc = ref_nc.parse(t, start='start')
            except Undecided:
                m.add('undecided_cases')
                continue
            m.add('states')
            got = impl.parse(model, t)
            m.add('evaluations')
            m.add('transitions')
            is_pruned = want != want_nc
            if is_pruned:
                pruned += 1
                m.add('nontrivial')
            # oracle 1: reference model
            if want[0] == 'fail':
                if got[0] != 'fail':
                    sig = 'cut-not-honoured' if is_pruned else 'accepts-what-doc-rejects'
                    qk = explain(g, t, got)
                    m.violation(f'defect:{qk}' if qk else f'{sig}/{name}', grammar=gtxt, input=t, got=got, want=want, without_cuts=want_nc)
            else:
                wrapped = {'v': want[1], 'rest': t[want[2]:]}
                if got[0] != 'ok':
                    m.violation(f'rejects-what-doc-accepts/{name}', grammar=gtxt, input=t, got=got, want=wrapped)
                elif got[1] != wrapped:
                    qk = explain(g, t, got)
                    m.violation(f'defect:{qk}' if qk else f'result-differs/{name}', grammar=gtxt, input=t, got=got[1], want=wrapped, without_cuts=want_nc)
            # oracle 3 (model-free): the documented expansion into helper rules makes the same
            # accept/reject decision and consumes the same input
            if model_ex is not None:
                got_ex = impl.parse(model_ex, t)
                m.add('evaluations')
                m.add('transitions')
                rest = lambda r: r[1].get('rest') if r[0] == 'ok' and isinstance(r[1], dict) else None  # noqa: E731
                if got_ex[0] != got[0] or rest(got_ex) != rest(got):
                    agrees_with_reference = (want[0] == 'fail' and got[0] == 'fail') or (want[0] == 'ok' and got[0] == 'ok' and got[1] == {'v': want[1], 'rest': t[want[2]:]})
                    qk = None if agrees_with_reference else explain(g, t, got)
                    m.violation(f'defect:{qk}' if qk else f'differs-from-documented-expansion/{name}', grammar=gtxt, input=t, got=got, expansion=got_ex)
            # oracle 2 (differential between two implementation runs): on inputs where the
            # documented semantics say no committed scope fails, the cuts change nothing
            if not is_pruned:
                got_nc = impl.parse(model_nc, t)
                m.add('evaluations')
                m.add('transitions')
                if got_nc[0] != got[0] or (got[0] == 'ok' and got_nc != got):
                    m.violation(f'cut-changes-accepted-result/{name}', grammar=gtxt, input=t, with_cuts=got, without_cuts=got_nc)
        # the cut semantics do not depend on memoization settings: short inputs again under two settings
        for t in inputs:
            if len(t) > 4:
                continue
            try:
                want = ref.parse(t, start='start')
            except Undecided:
                continue
            for sname, st in (('memo-off', {'memoization': False}), ('prune-off', {'prune_memos_on_cut': False})):
                got = impl.parse(model, t, **st)
                m.add('evaluations')
                m.add('transitions')
                ok = (want[0] == 'fail' and got[0] == 'fail') or (want[0] == 'ok' and got[0] == 'ok' and got[1] == {'v': want[1], 'rest': t[want[2]:]})
                if not ok:
                    m.violation(f'cut-semantics-depend-on-setting/{sname}/{name}', grammar=gtxt, input=t, settings=st, got=got, want=want)
        if pruned:
            m.add('programs_with_pruning_input')
            m.note('contexts_pruned', name)
            if pruned > 2:
                m.sample({'context': name, 'grammar': gtxt, 'inputs_pruned_by_cut': pruned})
        else:
            m.add('programs_without_pruning_input')


QUIRKS = ('cut-lost-in-later-iterations',)


def explain(g, text, got):
    for qk in QUIRKS:
        try:
            alt = Ref(g, Cfg(), quirks=frozenset([qk])).parse(text, start='start')
        except (Undecided, RecursionError):
            continue
        if alt[0] == 'ok' and got[0] == 'ok' and got[1] == {'v': alt[1], 'rest': text[alt[2]:]}:
            return qk
        if alt[0] == 'fail' and got[0] == 'fail':
            return qk
    return None


def run(rc):
    quick = rc.tier == 'quick'
    maxbody, maxcuts = (2, 1) if quick else (3, 2)
    maxlen = 6 if quick else 7
    progs = list(programs(maxbody, maxcuts))
    inputs = list(gs.inputs(['1', '2'], maxlen))
    rc.rule = (f'scope bodies = token sequences of length <= {maxbody} over {{1,2}} placed in {len(CONTEXTS)} cut-scope contexts '
               f'(choice, optional, closure, +closure, join, +gather, nested choice in group, optional in closure, helper rule with '
               f'choice, helper rule body, closure in choice), 1..{maxcuts} cuts at every position; x all inputs over {{1,2}} up to length {maxlen}; '
               'oracles: reference evaluator with the documented equivalences, and cut-removal (a cut only prunes); '
               'non-trivial = input on which the cut changes the documented outcome')
    rc.pmap(shard, progs, inputs=inputs)
    c = rc.total.counts
    rc.coverage.update({
        'states': c.get('states', 0), 'transitions': c.get('transitions', 0),
        'traces_validated_against_impl': c.get('states', 0), 'programs': c.get('programs', 0),
        'contexts': sorted(rc.total.sets.get('contexts', ())),
        'contexts_with_pruning_inputs': sorted(rc.total.sets.get('contexts_pruned', ())),
    })
    # rule-body: a cut in a rule body without a choice can never prune (A -> alpha | fail); it is the negative control
    # optional-in-optional: [[x ~ y]] gives nothing whether the inner optional is skipped or fails committed and is taken back,
    # so the cut never changes the documented outcome there; what is checked is that the implementation agrees (it did not)
    # pjoin-nullable-sep: the join commits after every separator by itself, so the explicit cuts inside the element change nothing
    # there; the context checks the implicit commit when the separator matches nothing
    missing = set(n for n, _, _ in CONTEXTS) - {'rule-body', 'optional-in-optional', 'pjoin-nullable-sep'} - set(rc.total.sets.get('contexts_pruned', ()))
    if missing:
        rc.violation('vacuous: no input is pruned by a cut in contexts ' + ','.join(sorted(missing)))
    rc.assumptions += [
        'cuts directly inside lookaheads, skip-to and bare groups without a choice are outside the language (docs and code disagree on the scope of a bare group)',
        'closure bodies are not nullable',
    ]


def replay(data):
    import sys
    from ..replay import replay_by_rerun
    return replay_by_rerun(sys.modules[__name__], data)
