"""C01 — grammar models parse exactly as the documented PEG semantics prescribe.

Every expression tree up to a node bound over the core leaf alphabet is
compiled from grammar text (start: E, plus fixed helper rules and a wrapper
that exposes the end offset) and run on every input string up to a length
bound; accept/reject, input consumed and the AST are compared with the
reference evaluator (E2).
"""
from __future__ import annotations

import itertools

from .. import gramspace as gs
from .. import impl
from ..refsem import Cfg, Ref, Undecided

PROPERTY = 'C01'
LEVEL = 'model_checking'

import re as _re

# VERIF_SEED selects one of three complete token profiles (each tier enumerates the selected
# profile completely): plain names, non-name tokens (no nameguard), and a token that is a
# prefix of the other (ordered choice + nameguard interplay).
PROFILES = [('a', 'b'), ('+', '-'), ('ab', 'a')]


def profile(seed=0):
    return PROFILES[seed % len(PROFILES)]


def helpers_for(t1, t2):
    return [
        gs.Rule('r', ('alt', ('seq', ('tok', t1), ('tok', t2)), ('tok', t2))),
        gs.Rule('R', ('pat', f'(?:{_re.escape(t2)})+')),
        gs.Rule('s', ('seq', ('named', 'x', ('tok', t1)), ('named', 'y', ('opt', ('tok', t2))))),
    ]


def leaves_for(t1, t2):
    return (
        ('tok', t1), ('tok', t2), ('pat', _re.escape(t1)), ('pat', f'(?:{_re.escape(t2)})+'), ('call', 'r'), ('call', 'R'), ('call', 's'),
        ('void',), ('fail',), ('eof',), ('dot',), ('const', 'k'), ('eclo',),
    )


def alphabet_for(t1, t2):
    return sorted(set(t1 + t2)) + [' ']


HELPERS = helpers_for('a', 'b')
WRAP = [
    gs.Rule('top', ('seq', ('named', 'v', ('call', 'start')), ('named', 'rest', ('call', 'REST')))),
    gs.Rule('REST', ('pat', r'[\s\S]*')),
]

LEAVES = leaves_for('a', 'b')
UNARY = ('grp', 'opt', 'clo', 'pclo', 'look', 'nlook', 'ovr', 'ovrl', 'skipto')
BINARY = ('seq', 'alt', 'join', 'pjoin', 'gather', 'pgather')
NAMES = ('x',)

NONVALUE = {'look', 'nlook', 'void', 'eof', 'fail', 'cut'}


def nullable(e, nulrules=frozenset()):
    return Ref.__new__(Ref)._nullable(e, nulrules)  # static helper, no state used


import os
ADMIT = set(filter(None, os.environ.get('VERIF_C01_ADMIT', '').split(',')))


def in_language(e) -> str | None:
    """None if the documentation decides e; otherwise the reason it is left out."""
    why = _in_language(e)
    if why and why.split(':')[0] in ADMIT:
        return None
    return why


def _in_language(e) -> str | None:
    for x in gs.subexps(e):
        k = x[0]
        if k in ('clo', 'pclo') and nullable(x[1]):
            return 'A:closure over a nullable body'
        if k in gs.SEPPED and (nullable(x[2]) and nullable(x[1])):
            return 'B:join with nullable element and separator'
        if k == 'opt':
            t = x[1]
            while t[0] == 'grp':
                t = t[1]
            if t[0] in ('opt', 'clo', 'join', 'gather') and gs.kinds(t) & {'named', 'nlist'}:
                return 'G:names inside an optional directly over an optional/closure/join (where names are declared is not documented; the optimizer collapses the pair)'
        if k in ('named', 'nlist', 'ovr', 'ovrl'):
            target = x[2] if k in ('named', 'nlist') else x[1]
            ks = gs.kinds(target)
            if ks & NONVALUE:
                return 'C:name applied to an expression containing a non-value element'
            if ks & {'named', 'nlist', 'ovr', 'ovrl'}:
                return 'D:name applied to an expression that itself binds names'
    return None


def build_grammar(e, helpers=None) -> gs.Grammar:
    return gs.Grammar(rules=WRAP[:1] + [gs.Rule('start', e)] + (helpers or HELPERS) + WRAP[1:])


def expressions(maxn: int, leaves=None):
    return gs.enum_upto(maxn, leaves or LEAVES, UNARY, BINARY, NAMES)


QUIRKS = ('later-none-iteration-dropped',)


def explain(g, text, got_value, start='start'):
    """If the implementation's value equals the documented semantics modified by
    exactly one recorded defect, name it (the violation is then reported under
    that defect's signature, which known_findings.json may list)."""
    for qk in QUIRKS:
        try:
            alt = Ref(g, Cfg(), quirks=frozenset([qk])).parse(text, start=start)
        except (Undecided, RecursionError):
            continue
        if alt[0] == 'ok' and alt[1] == got_value:
            return qk
    return None


def compare_case(m, g, model, ref, text, sig_prefix=''):
    """One (grammar, input): wrapper parse (value + end offset) and direct parse
    of `start`.  Returns True if non-trivial (consumed input)."""
    try:
        want = ref.parse(text, start='start')
    except Undecided as u:
        m.add('undecided_cases')
        m.note('undecided_reasons', str(u))
        return False
    except RecursionError:
        m.add('undecided_cases')
        return False
    m.add('states')
    got = impl.parse(model, text)          # through the wrapper: first rule = top
    m.add('evaluations')
    m.add('transitions')
    exp_txt = gs.render(g.rule('start').exp)
    if want[0] == 'fail':
        if got[0] != 'fail':
            m.violation(f'{sig_prefix}accepts-what-doc-rejects', grammar=exp_txt, input=text, got=got, want=want)
    else:
        _ok, value, end = want
        wrapped = {'v': value, 'rest': text[end:]}
        if got[0] == 'fail':
            m.violation(f'{sig_prefix}rejects-what-doc-accepts', grammar=exp_txt, input=text, got=got, want=wrapped)
        elif got[0] == 'exc':
            m.violation(f'{sig_prefix}foreign-exception/{got[1]}', grammar=exp_txt, input=text, got=got)
        elif got[1] != wrapped:
            g_rest = got[1].get('rest') if isinstance(got[1], dict) else None
            if g_rest != wrapped['rest']:
                m.violation(f'{sig_prefix}consumed-differs', grammar=exp_txt, input=text, got=got[1], want=wrapped)
            else:
                qk = explain(g, text, got[1].get('v'))
                sig = f'defect:{qk}' if qk else f'{sig_prefix}ast-differs'
                m.violation(sig, grammar=exp_txt, input=text, got=got[1], want=wrapped)
    # direct parse with start named explicitly
    got2 = impl.parse(model, text, start='start')
    m.add('evaluations')
    m.add('transitions')
    if want[0] == 'fail':
        if got2[0] != 'fail':
            m.violation(f'{sig_prefix}start/accepts-what-doc-rejects', grammar=exp_txt, input=text, got=got2)
    elif got2[0] != 'ok' or got2[1] != want[1]:
        qk = explain(g, text, got2[1]) if got2[0] == 'ok' else None
        sig = f'defect:{qk}' if qk else f'{sig_prefix}start/differs'
        m.violation(sig, grammar=exp_txt, input=text, got=got2, want=want[1])
    return want[0] == 'ok' and want[2] > 0


def shard(m, items, inputs=(), prof=('a', 'b')):
    helpers = helpers_for(*prof)
    for e in items:
        why = in_language(e)
        if why:
            m.add('expressions_outside_language')
            m.note('outside_reasons', why)
            continue
        g = build_grammar(e, helpers)
        text = gs.render_grammar(g)
        try:
            model = impl.compile_text(text)
        except Exception as ex:  # noqa
            m.violation(f'compile-failed/{type(ex).__name__}', grammar=gs.render(e), error=str(ex)[:300])
            continue
        m.add('programs')
        ref = Ref(g, Cfg())
        nt = 0
        for t in inputs:
            if compare_case(m, g, model, ref, t):
                nt += 1
        m.add('nontrivial', nt)
        if nt and len(gs.render(e)) > 8:
            m.sample({'start': gs.render(e), 'inputs': len(inputs), 'nontrivial_inputs': nt})


def T(s):
    return ('tok', s)


def rule_forms():
    """Rule includes, based rules and @override rules, each with its documented expansion."""
    inc = gs.Rule('inc', ('seq', ('named', 'x', T('a')), ('opt', T('b'))))
    forms = []
    forms.append(('include', [inc, gs.Rule('start', ('seq', T('a'), ('inc', 'inc'), T('b')))],
                  [inc, gs.Rule('start', ('seq', T('a'), ('named', 'x', T('a')), ('opt', T('b')), T('b')))]))
    forms.append(('include-in-choice', [inc, gs.Rule('start', ('alt', ('seq', ('inc', 'inc'), T('a')), ('seq', T('b'), ('inc', 'inc'))))],
                  [inc, gs.Rule('start', ('alt', ('seq', ('named', 'x', T('a')), ('opt', T('b')), T('a')), ('seq', T('b'), ('named', 'x', T('a')), ('opt', T('b')))))]))
    base = gs.Rule('base', ('seq', T('a'), ('opt', T('b'))))
    forms.append(('based', [base, gs.Rule('start', ('clo', T('a')), base='base')],
                  [base, gs.Rule('start', ('seq', ('seq', T('a'), ('opt', T('b'))), ('clo', T('a'))))]))
    nbase = gs.Rule('base', ('named', 'l', T('a')))
    forms.append(('based-named', [nbase, gs.Rule('start', ('named', 'r', ('alt', T('a'), T('b'))), base='base')],
                  [nbase, gs.Rule('start', ('seq', ('named', 'l', T('a')), ('named', 'r', ('alt', T('a'), T('b')))))]))
    forms.append(('override', [gs.Rule('start', ('seq', ('call', 'ab'), ('eof',))), gs.Rule('ab', T('b')),
                               gs.Rule('ab', ('seq', ('ovr', T('a')), ('clo', ('ovr', T('b')))), decorators=('override',))],
                  [gs.Rule('start', ('seq', ('call', 'ab'), ('eof',))), gs.Rule('ab', ('seq', ('ovr', T('a')), ('clo', ('ovr', T('b')))))]))
    return forms


def shard_forms(m, items, inputs=()):
    for label, form_rules, expanded_rules in items:
        gf = gs.Grammar(rules=list(form_rules))
        ge = gs.Grammar(rules=list(expanded_rules))
        try:
            mf = impl.compile_text(gs.render_grammar(gf))
            me = impl.compile_text(gs.render_grammar(ge))
        except Exception as ex:  # noqa
            m.violation(f'rule-form/compile-failed/{label}/{type(ex).__name__}', grammar=gs.render_grammar(gf), error=str(ex)[:200])
            continue
        m.add('programs', 2)
        ref = Ref(gf, Cfg())
        for t in inputs:
            a = impl.parse(mf, t, start='start')
            b = impl.parse(me, t, start='start')
            m.add('evaluations', 2)
            m.add('transitions', 2)
            m.add('states')
            if a[0] != b[0] or (a[0] == 'ok' and a[1] != b[1]):
                m.violation(f'rule-form/differs-from-documented-expansion/{label}', grammar=gs.render_grammar(gf), expansion=gs.render_grammar(ge), input=t, form=a, expanded=b)
            try:
                want = ref.parse(t, start='start')
            except Undecided:
                continue
            ok = (want[0] == 'fail' and a[0] == 'fail') or (want[0] == 'ok' and a[0] == 'ok' and a[1] == want[1])
            if not ok:
                m.violation(f'rule-form/differs-from-reference/{label}', grammar=gs.render_grammar(gf), input=t, got=a, want=want)
            if a[0] == 'ok':
                m.add('nontrivial')


# Forms written as text (the IR has no left/right joins, rule chains or constants that fail), each with the grammar the
# documentation says it stands for: [x] is (x | ()); c < b is c: >b ...; a constant that cannot be evaluated fails.
TEXT_FORMS = [
    ('optional-left-join', "start: ['b'<{'a'}+] 'b' $ ;", "start: ('b'<{'a'}+ | ()) 'b' $ ;", ['a', 'b', ' ']),
    ('optional-right-join', "start: ['b'>{'a'}+] 'b' $ ;", "start: ('b'>{'a'}+ | ()) 'b' $ ;", ['a', 'b', ' ']),
    ('optional-positive-join', "start: ['b'%{'a'}+] 'b' $ ;", "start: ('b'%{'a'}+ | ()) 'b' $ ;", ['a', 'b', ' ']),
    ('optional-positive-gather', "start: ['b'.{'a'}+] 'b' $ ;", "start: ('b'.{'a'}+ | ()) 'b' $ ;", ['a', 'b', ' ']),
    ('optional-positive-closure', "start: [{'a'}+] 'b' $ ;", "start: ({'a'}+ | ()) 'b' $ ;", ['a', 'b', ' ']),
    ('based-chain', "a: 'a' ;\n\nb < a: 'b' ;\n\nc < b: 'a' ;\n\nstart: c $ ;", "start: 'a' 'b' 'a' $ ;", ['a', 'b', ' ']),
    ('based-chain-named', "a: x:'a' ;\n\nb < a: y:['b'] ;\n\nc < b: z+:'a' ;\n\nstart: c $ ;",
     "c: x:'a' y:['b'] z+:'a' ;\n\nstart: c $ ;", ['a', 'b', ' ']),
    ('based-chain-of-four', "a: 'a' ;\n\nb < a: 'b' ;\n\nc < b: 'a' ;\n\nd < c: 'b' ;\n\nstart: d $ | c $ ;", "start: 'a' 'b' 'a' 'b' $ | 'a' 'b' 'a' $ ;", ['a', 'b', ' ']),
    ('include-of-based', "a: x:'a' ;\n\nb < a: y:'b' ;\n\nstart: 'b' >b 'a' $ ;", "start: 'b' x:'a' y:'b' 'a' $ ;", ['a', 'b', ' ']),
    ('include-of-include', "a: x:'a' ;\n\nb: >a y:'b' ;\n\nstart: 'b' >b 'a' $ ;", "start: 'b' x:'a' y:'b' 'a' $ ;", ['a', 'b', ' ']),
    # a constant that cannot be evaluated makes its rule fail like a mismatch (written so that the rule fails as a whole
    # whether or not its remaining alternatives are tried after the constant: both readings give the same result)
    ('failing-constant-in-nested-choice', "start: '+' ('-' r '+' | '-' '+' '-' '-') $ ;\n\nr: '+' ('-' `1/0` | '+') ;",
     "start: '+' ('-' r '+' | '-' '+' '-' '-') $ ;\n\nr: '+' ('-' !() | '+') ;", ['+', '-']),
    ('failing-constant-in-optional', "start: r '-' $ | '+' '-' '-' $ ;\n\nr: '+' ['-' `{}+1` '+'] '+' ;",
     "start: r '-' $ | '+' '-' '-' $ ;\n\nr: '+' ['-' !() '+'] '+' ;", ['+', '-']),
    ('failing-constant-after-cut', "start: r | '+' '-' ;\n\nr: '+' ~ ['-' `{}+1`] '+' ;",
     "start: r | '+' '-' ;\n\nr: '+' ~ ['-' !()] '+' ;", ['+', '-']),
]


def shard_text_forms(m, items, maxlen=5):
    for label, form, expanded, alpha in items:
        try:
            mf = impl.compile_text(form)
            me = impl.compile_text(expanded)
        except Exception as ex:  # noqa
            m.violation(f'rule-form/compile-failed/{label}/{type(ex).__name__}', grammar=form, error=str(ex)[:200])
            continue
        m.add('programs', 2)
        hit = False
        for t in gs.inputs(alpha, maxlen):
            a = impl.parse(mf, t, start='start')
            b = impl.parse(me, t, start='start')
            m.add('evaluations', 2)
            m.add('transitions', 2)
            m.add('states')
            if a[0] != b[0] or (a[0] == 'ok' and a[1] != b[1]):
                m.violation(f'rule-form/differs-from-documented-expansion/{label}', grammar=form, expansion=expanded, input=t, form=a, expanded=b)
            if b[0] == 'ok':
                m.add('nontrivial')
                hit = True
        m.reach('text-forms', label, hit)


def named_composites(prof):
    """Names and overrides applied to composite value expressions: every pair (and the triples with a
    middle token) of value-bearing atoms, including atoms whose value is falsy ([] '' None)."""
    t1, t2 = prof
    atoms = [('tok', t1), ('tok', t2), ('clo', ('tok', t2)), ('opt', ('tok', t2)), ('eclo',), ('pat', f'(?:{_re.escape(t2)})*'),
             ('call', 'r'), ('call', 's'), ('const', 'k'), ('pclo', ('tok', t1)), ('gather', ('tok', t2), ('tok', t1))]
    out = []
    for a in atoms:
        for b in atoms:
            for op in ('named', 'nlist', 'ovr', 'ovrl'):
                grp = ('grp', ('seq', a, b))
                e = (op, 'x', grp) if op in ('named', 'nlist') else (op, grp)
                out.append(e)
                out.append(('seq', e, ('tok', t1)))
            out.append(('named', 'x', ('grp', ('alt', ('seq', a, b), ('tok', t1)))))
            out.append(('named', 'x', ('opt', ('seq', a, b))))
    for a in atoms[:6]:
        for b in atoms[:6]:
            out.append(('named', 'x', ('grp', ('seq', a, ('tok', t1), b))))
    return out


def repeated_names(prof):
    """One name bound three or more times, the later bindings made in scopes that are then given up (an iteration,
    an option, a lookahead, an optional that fails after the binding): what a scope binds must vanish with it."""
    t1, t2 = ('tok', prof[0]), ('tok', prof[1])
    X = lambda e: ('named', 'x', e)      # noqa: E731
    L = lambda e: ('nlist', 'x', e)      # noqa: E731
    out = []
    for N in (X, L):
        out += [
            ('clo', ('seq', N(t1), t2)),
            ('pclo', ('seq', N(t1), t2)),
            ('seq', ('clo', ('seq', N(t1), t2)), ('opt', t1)),
            ('seq', N(t1), N(t2), ('grp', ('alt', ('seq', N(t1), t2), t1))),
            ('seq', N(t1), N(t2), ('look', N(t1)), t1),
            ('seq', N(t1), N(t2), ('nlook', ('seq', N(t1), t2)), t1),
            ('seq', N(t1), N(t2), ('opt', ('seq', N(t1), t2)), ('opt', t1)),
            ('seq', ('clo', N(t1)), ('opt', ('seq', N(t2), t1)), ('opt', t2)),
            ('seq', ('gather', t2, N(t1)), ('opt', t2)),
            ('alt', ('seq', N(t1), N(t1), N(t1), t2), ('seq', N(t1), N(t1), ('clo', t1))),
            ('seq', N(t1), ('clo', ('alt', ('seq', N(t2), t2), N(t2)))),
        ]
    out += [('seq', X(t1), L(t2), ('grp', ('alt', ('seq', L(t1), t2), t1)))]
    return out


def dict_attribute_names(prof):
    """Names that are attributes or methods of dict get an underscore appended (docs/syntax.rst), as plain and as list names,
    bound or left at their defaults."""
    t1, t2 = ('tok', prof[0]), ('tok', prof[1])
    out = []
    for name, other in (('items', 'values'), ('values', 'keys'), ('keys', 'get'), ('update', 'items'), ('pop', 'copy')):
        out += [
            ('seq', ('named', name, t1), ('opt', ('nlist', other, t2))),
            ('seq', ('nlist', name, t1), ('opt', ('named', other, t2)), ('clo', ('nlist', name, t1))),
            ('clo', ('seq', ('nlist', name, t1), ('opt', ('named', other, t2)))),
            ('alt', ('seq', ('nlist', name, t1), t2, ('nlist', other, t2)), ('named', name, t1), ('nlist', other, t2)),
            ('seq', ('opt', ('nlist', name, t2)), ('opt', ('named', other, t1))),
        ]
    return out


def shard_helper_starts(m, items, inputs=(), prof=('a', 'b')):
    """Parsing from any rule named as start: the helper rules themselves."""
    g = build_grammar(('tok', prof[0]), helpers_for(*prof))
    model = impl.compile_text(gs.render_grammar(g))
    ref = Ref(g, Cfg())
    for start in items:
        for t in inputs:
            got = impl.parse(model, t, start=start)
            want = ref.parse(t, start=start)
            m.add('evaluations')
            m.add('transitions')
            m.add('states')
            ok = (want[0] == 'fail' and got[0] == 'fail') or (want[0] == 'ok' and got[0] == 'ok' and got[1] == want[1])
            if not ok:
                m.violation(f'named-start/{start}', input=t, got=got, want=want)


# ------------------------------------------------------------ a rule's value is one element of its caller

CALLEE_BODIES = {          # body text -> value of the rule on input 'a b' / 'a'
    "=('a' 'b')": {'a b': ['a', 'b']},
    "@:('a' 'b')": {'a b': ['a', 'b']},
    "@+:'a' @+:'b'": {'a b': ['a', 'b']},
    "=('a' {'b'}+)": {'a b': ['a', ['b']]},
    "'a' 'b'": {'a b': ['a', 'b']},
    "{'a'}+ 'b'": {'a b': [['a'], 'b']},
    "x:'a' 'b'": {'a b': {'x': 'a'}},
}


def callee_values(rc):
    """`start` calls `r` before, between and after tokens: whatever list `r` returns, it is one element of start's list."""
    for body, vals in CALLEE_BODIES.items():
        for text_r, val in vals.items():
            for pos, (tmpl, inp, want) in {
                'first': ("start: r 'c' $ ;", f'{text_r} c', [val, 'c']),
                'middle': ("start: 'c' r 'c' $ ;", f'c {text_r} c', ['c', val, 'c']),
                'last': ("start: 'c' r $ ;", f'c {text_r}', ['c', val]),
                'alone-then-closure': ("start: r {'c'} $ ;", f'{text_r} c', [val, ['c']]),
            }.items():
                gtext = f"{tmpl}\n\nr: {body} ;\n"
                model = impl.compile_text(gtext)
                got = impl.parse(model, inp)
                rc.add('evaluations')
                rc.add('states')
                rc.add('transitions')
                rc.add('nontrivial')
                if got != ('ok', want):
                    opened = body.startswith(('=', '@')) and pos in ('first', 'alone-then-closure')
                    sig = 'defect:override-list-value-spliced-into-caller' if opened else f'callee-value-not-one-element/{pos}'
                    rc.violation(sig, grammar=gtext, input=inp, got=got, want=['ok', want])


def run(rc):
    callee_values(rc)
    maxn = 3 if rc.tier == 'quick' else 4
    maxlen = 4 if rc.tier == 'quick' else 5
    prof = profile(rc.seed)
    exps = expressions(maxn, leaves_for(*prof))
    inputs = list(gs.inputs(alphabet_for(*prof), maxlen))
    rc.coverage['token_profile'] = list(prof)
    rc.rule = (f'token profile {prof} (selected by VERIF_SEED among {PROFILES}); all expression trees with <= {maxn} nodes over leaves {{t1 t2 /t1/ /t2+/ r R s () !() $ /./ `k` {{}}}} and '
               'operators {group optional closure +closure & ! -> x: x+: @: @+: sequence choice join gather (+/-)}, each compiled from text as '
               f'`start` with helper rules, x all strings over the tokens\' characters and space of length <= {maxlen}; compared with the reference evaluator on '
               'accept/reject, end offset (through a wrapper rule capturing the rest) and AST; plus names/overrides over every pair of value-bearing atoms (incl. falsy values), rule includes, based rules and @override rules against their '
               'documented expansions and the reference, and parses started from each helper rule; non-trivial = accepted and consumed input')
    rc.pmap(shard, exps, inputs=inputs, prof=prof)
    rc.pmap(shard, named_composites(prof), inputs=inputs, prof=prof)
    sep = ' ' if prof[0].isalnum() else ''
    token_inputs = [sep.join(t) for n in range(0, 7 if rc.tier == 'quick' else 9) for t in itertools.product(prof, repeat=n)]
    rc.pmap(shard, repeated_names(prof), chunk=1, inputs=token_inputs, prof=prof)
    rc.pmap(shard, dict_attribute_names(prof), chunk=1, inputs=[t for t in token_inputs if len(t.replace(' ', '')) <= 4 * len(prof[0])], prof=prof)
    rc.pmap(shard_forms, rule_forms(), chunk=1, inputs=list(gs.inputs(['a', 'b', ' '], maxlen + 1)))
    rc.pmap(shard_text_forms, TEXT_FORMS, chunk=1, maxlen=maxlen + 1)
    rc.pmap(shard_helper_starts, ['r', 'R', 's', 'REST'], chunk=1, inputs=inputs, prof=prof)
    c = rc.total.counts
    rc.coverage.update({
        'states': c.get('states', 0),
        'transitions': c.get('transitions', 0),
        'traces_validated_against_impl': c.get('states', 0),
        'programs': c.get('programs', 0),
        'expressions_enumerated': len(exps),
        'inputs_per_program': len(inputs),
        'outside_language': sorted(rc.total.sets.get('outside_reasons', ())),
    })
    rc.assumptions += [
        'the reference evaluator encodes docs/syntax.rst and docs/ast.rst (DESIGN.md appendix A)',
        'constructs the documentation does not decide are left out of the language (listed in coverage.outside_language)',
    ]


def replay(data):
    import sys
    from ..replay import replay_by_rerun
    return replay_by_rerun(sys.modules[__name__], data)
