"""C13 — pretty-printed grammars recompile to the same parser and are a fixpoint.

Models from three sources — compiled from text (C01 expression corpus, cut
corpus, feature grammars incl. every directive/keyword/param/decorator/base
rule form, $->, @meta, alerts, constants, a lexeme-stress family), reloaded
from JSON, and translated from ANTLR.  For each model m:
  compile(m.pretty()) succeeds; it and m agree on all inputs up to a bound
  (accept and AST); rule names, params, decorators that affect parsing,
  directives and keywords survive; pretty(compile(pretty(m))) == pretty(m);
  m.railroads() returns with all lines of equal display width.
"""
from __future__ import annotations

import itertools
import unicodedata

from .. import gramspace as gs
from .. import impl
from . import c01, c02, c05

PROPERTY = 'C13'
LEVEL = 'exploration'

FEATURES = dict(c02.FEATURE_GRAMMARS)
FEATURES.update({
    'nomemo': "start: x 'a' | x 'b' ;\n\n@nomemo\nx: 'a' ;\n",
    'name-deco': "@@keyword :: if else\n\nstart: {id}+ $ ;\n\n@name\nid: /[a-z]+/ ;\n",
    'kwparams': "start[A, 1, k='v', n=2]: 'a' ;\n",
    # parameter names and values that begin with underscores (keys that look private or like the class tag of the JSON form)
    'kwparams-underscore': "start: r s $ ;\n\nr(kind='x', _prec=1, __class=2): 'a' ;\n\ns[_T, __u, k=_v]: 'b' ;\n",
    'typed': "start::Pair::Base: l:'a' r:'b' ;\n",
    'alerts': "start: 'a' ^`low` | 'b' ^^^`high {x}` x:'c' ;\n",
    'const-multi': "start: 'a' `42` `True` c:`text {a}` ;\n",
    'meta-all': "start: @int @uint @float @bool @name ;\n",
    'eol-rule': "start: {line}+ $ ;\n\nline: /\\w+/ $-> ;\n",
    'empty-closure-end': "start: r {} ;\n\nr: 'a' ;\n",
    'void-fail': "start: 'a' () | !() | 'b' ;\n",
    'joins-all': "start: ','%{'a'} ';'%{'b'}+ ':'.{'a'} '.'.{'b'}+ ;\n",
    'lookaheads': "start: &'a' !'b' /./ ->'c' ->&'d' ;\n",
    'grammar-name': "@@grammar :: Fancy\n@@left_recursion :: False\n@@parseinfo :: True\n@@nameguard :: True\n\nstart: 'a' ;\n",
    'ws-directive': "@@whitespace :: /[\\t ]+/\n@@comments :: /\\(\\*.*?\\*\\)/\n@@eol_comments :: /#[^\\n]*/\n@@namechars :: '-_'\n\nstart: 'a-b' 'c' ;\n",
    'long-choice': "start: " + ' | '.join(f"'{c * 9}'" for c in 'abcdefghij') + " ;\n",
    'long-seq': "start: " + ' '.join(f"'{c * 9}'" for c in 'abcdefghij') + " ;\n",
    'eof-in-choices': "start: 'a' $ | 'b' $ | 'c' $ | ('d' | ';' $ | 'e') ;\n",
    # spellings whose printed form must still be readable as what it was
    'whitespace-none': "@@whitespace :: None\n\nstart: 'a' 'b' | /a\\s+b/ ;\n",
    'based-with-params': "start: sub | both ;\n\nbase[T]: 'a' ;\n\nsub < base: 'b' ;\n\nboth[U, k=1] < base: 'a' ;\n",
    'keyword-then-typed-rule': "@@keyword :: if\n\nstart::T: 'a' id ;\n\n@name\nid: /[a-z]+/ ;\n",
    'keyword-then-based-rule': "@@keyword :: ab\n\nbase: 'a' ;\n\nstart < base: id ;\n\n@name\nid: /[a-z]+/ ;\n",
    'many-keywords': "@@keyword :: " + ' '.join(f'kw{i}longlonglong' for i in range(12)) + " b\n\nstart: {id}+ $ ;\n\n@name\nid: /[a-z]+/ ;\n",
    'multiline-constant': "start: 'a' c:```one\ntwo``` | 'b' ^```warn\nmore``` ;\n",
    # double-width characters in every alternative of choices with 2..4 alternatives (railroad rails are padded per alternative)
    'wide-first': "start: '日本' | 'a' | 'b' | 'c' ;\n",
    'wide-inner': "start: 'a' | '日本' 'b' | 'c' ;\n",
    'wide-inner-2': "start: 'a' | 'b' | '日本語' 'x' | 'c' $ ;\n",
    'wide-last': "start: 'a' | 'b' | '日本' ;\n",
    'wide-names': "start: 'a' | x:'ｗ' y:`日本` | [ '世' ] 'c' | {'界'} ;\n",
    # bodies long enough to be printed over several lines (each element printer has a one-line and a multi-line branch)
    'long-gather': "start: ','.{" + ' | '.join(f"'{c * 20}'" for c in 'abc') + "}+ $ ;\n",
    'long-join': "start: ';'%{" + ' | '.join(f"'{c * 20}'" for c in 'abc') + "} $ ;\n",
    'long-left-join': "start: '+'<{" + ' | '.join(f"'{c * 20}'" for c in 'abc') + "}+ $ ;\n",
    'long-right-join': "start: '+'>{" + ' | '.join(f"'{c * 20}'" for c in 'abc') + "}+ $ ;\n",
    'long-closures': "start: {" + ' | '.join(f"'{c * 20}'" for c in 'abc') + "}+ [" + ' | '.join(f"'{c * 20}'" for c in 'def') + "] (" + ' | '.join(f"'{c * 20}'" for c in 'ghi') + ") $ ;\n",
    'long-named': "start: x+:(" + ' | '.join(f"'{c * 20}'" for c in 'abc') + ") y:{" + ' | '.join(f"'{c * 20}'" for c in 'abc') + "} &(" + ' | '.join(f"'{c * 20}'" for c in 'abcd') + ") /./ ;\n",
    'unicode': "start: 'é' 'こんにちは' ('世界' | 'w' | n) $ ;\n\nn: /\\w/ ;\n",
})

STRESS_CHARS = ["'", '"', '\\', '/', '\n', '`', '{', '}', 'a', ' ']


def stress_lexemes(maxlen):
    for n in range(1, maxlen + 1):
        for t in itertools.product(STRESS_CHARS, repeat=n):
            yield ''.join(t)


# where the lexeme stands: first in its sequence, right after a token, right after a rule call (what may follow an atom
# without a blank being needed is decided by guards in the grammar of grammars)
POSITIONS = {
    'first': "start: {L} 'z' | 'z' ;\n",
    'after-token': "start: 'z' {L} | 'z' 'z' 'z' ;\n",
    'after-call': "start: r {L} 'z' | 'z' ;\n\nr: 'z' ;\n",
}


def tok_grammar(s, position='first'):
    return POSITIONS[position].replace('{L}', repr(s))


def pat_grammar(s, position='first', escaped_slashes=False):
    import re
    try:
        re.compile(s)
    except re.error:
        return None
    if '\n' in s:
        return None
    if escaped_slashes:
        # the same pattern written between slashes, its own slashes escaped: the printer has to choose another form
        if '/' not in s or s.endswith('\\') or '\\/' in s:
            return None
        body = '/' + s.replace('/', '\\/') + '/'
    else:
        body = f'/{s}/' if '/' not in s else '?' + repr(s)
    return POSITIONS[position].replace('{L}', body)


def ulen(s):
    return sum(2 if unicodedata.east_asian_width(c) in 'WF' else (0 if unicodedata.combining(c) else 1) for c in s)


def facts(model):
    return {
        'rules': [(r.name, tuple(map(str, r.params or ())), tuple(sorted((k, str(v)) for k, v in (r.kwparams or {}).items())),
                   bool(r.is_name), bool(r.no_memo), r.base, bool(r.is_tokn)) for r in model.rules],
        'directives': {k: str(v) for k, v in sorted(model.directives.items())},
        'keywords': sorted(map(str, model.keywords)),
    }


def check_model(m, label, model, inputs, source='text', settings=None):
    import tatsu
    from tatsu.exceptions import ParseException
    m.add('programs')
    try:
        p1 = model.pretty()
    except Exception as e:  # noqa
        m.violation(f'pretty-raises/{type(e).__name__}/{source}', grammar=label, error=str(e)[:200])
        return
    try:
        impl.clear_compile_cache()
        m2 = tatsu.compile(p1)
    except Exception as e:  # noqa
        m.violation(f'pretty-text-does-not-compile/{classify(label, p1)}', grammar=label, pretty=p1, error=f'{type(e).__name__}: {str(e)[:150]}')
        return
    m.add('evaluations')
    f1, f2 = facts(model), facts(m2)
    if f1 != f2:
        diff = [k for k in f1 if f1[k] != f2[k]]
        m.violation(f'pretty-loses/{"+".join(diff)}/{classify(label, p1)}', grammar=label, pretty=p1, original={k: f1[k] for k in diff}, recompiled={k: f2[k] for k in diff})
    try:
        p2 = m2.pretty()
        if p2 != p1:
            m.violation(f'pretty-not-a-fixpoint/{classify(label, p1)}', grammar=label, first=p1, second=p2)
    except Exception as e:  # noqa
        m.violation(f'pretty-raises-on-recompiled/{type(e).__name__}', grammar=label, pretty=p1)
    nt = 0
    for t in inputs:
        a = impl.parse(model, t, _start_policy=True)
        b = impl.parse(m2, t, _start_policy=True)
        m.add('evaluations', 2)
        if a[0] == 'ok':
            nt += 1
        if a[0] != b[0] or (a[0] == 'ok' and a[1] != b[1]):
            m.violation(f'recompiled-parser-differs/{classify(label, p1)}', grammar=label, pretty=p1, input=t, original=a, recompiled=b)
    m.add('nontrivial', nt)
    # railroads
    try:
        rr = model.railroads()
        widths = {ulen(line) for line in rr.splitlines() if line.strip()}
        by_block = [blk for blk in rr.split('\n\n') if blk.strip()]
        for blk in by_block:
            ws = {ulen(line) for line in blk.splitlines()}
            if len(ws) > 1:
                m.note('railroad_block_width_sets', len(ws))
        m.add('evaluations')
    except AssertionError as e:
        m.violation('railroads-width-assertion', grammar=label, error=str(e)[:150])
    except Exception as e:  # noqa
        m.violation(f'railroads-raises/{type(e).__name__}', grammar=label, error=str(e)[:150])


def classify(label, pretty):
    """Shape key of a round-trip failure (for recorded findings)."""
    import re
    if '⏎' in pretty:
        return 'eol-symbol'
    # a rule whose last element is the empty closure `{}`, followed by another rule: the grammar's own
    # `empty_closure: '{}' ~ =()` skips the blank line that ends the rule (recorded finding)
    if re.search(r'\{\}[ \t]*\n\s*\n\s*[@\w]', pretty):
        return 'rule-ending-in-empty-closure'
    # a constant that spans lines: the printer indents the continuation lines with the enclosing expression, and the
    # indentation becomes part of the constant when the text is read again (recorded finding)
    if re.search(r'```[^`]*\n[^`]*```', pretty):
        return 'multi-line-constant'
    return 'other'


def shard_exprs(m, items, inputs=()):
    for e in items:
        g = gs.Grammar(rules=[gs.Rule('start', e)] + c01.HELPERS)
        text = gs.render_grammar(g)
        try:
            model = impl.compile_text(text)
        except Exception:  # noqa
            continue
        check_model(m, 'start: ' + gs.render(e), model, inputs)


def shard_cuts(m, items, inputs=()):
    for name, exp, extra, _a, _b, _c in items:
        g = gs.Grammar(rules=[gs.Rule('start', exp)] + list(extra))
        model = impl.compile_text(gs.render_grammar(g))
        check_model(m, '; '.join(gs.render_rule(r) for r in g.rules), model, inputs)


def shard_features(m, items):
    from tatsu.peg import Grammar
    for name, text in items:
        try:
            model = impl.compile_text(text)
        except Exception as e:  # noqa
            m.violation(f'seed-does-not-compile/{name}', grammar=text, error=str(e)[:200])
            continue
        inputs = c02.feature_inputs(name, 'quick')[:8000]
        impl.rule_reach(m, 'feature-grammar-rules', name, model, inputs, **impl.with_start(model, {}))
        check_model(m, text, model, inputs)
        # the same model reloaded from JSON
        try:
            reloaded = Grammar.loads(model.asjsons())
        except Exception as e:  # noqa
            m.note('json_reload_failed', name)     # C14's subject
            continue
        check_model(m, text + '  (reloaded from JSON)', reloaded, inputs[:100], source='json')
        m.sample({'grammar': text, 'pretty': model.pretty()})


def shard_stress(m, items):
    for s in items:
        forms = [('token', tok_grammar(s)), ('pattern', pat_grammar(s))]
        for pos in ('after-token', 'after-call'):
            forms += [(f'token-{pos}', tok_grammar(s, pos)), (f'pattern-{pos}', pat_grammar(s, pos)), (f'pattern-escaped-slashes-{pos}', pat_grammar(s, pos, True))]
        forms.append(('pattern-escaped-slashes', pat_grammar(s, 'first', True)))
        for kind, gt in forms:
            if gt is None:
                continue
            try:
                model = impl.compile_text(gt)
            except Exception:  # noqa
                m.add('stress_seed_rejected')
                continue
            inputs = [s + ' z', s + 'z', 'z', s, 'z ' + s, 'z' + s, 'z ' + s + ' z', 'z z z', 'z z']
            check_model(m, gt, model, inputs, source=f'stress-{kind}')


ANTLR = [
    "grammar T; start: 'hello';",
    "grammar T; INT: [0-9]+; start: INT;",
    "grammar T; start: a b | c; a: 'x'; b: 'y'?; c: 'z'*;",
    "grammar T; start: x=ID y+=ID*; ID: [a-z]+;",
    "grammar T; start: ~'q' 'a'+;",
    "grammar T; start: ~('ab'|'cd') 'x' ;",
    "grammar T; start: ~(kw | ',') ID ; kw: 'if' | 'else' ; ID: [a-z]+ ;",
    "grammar T; start: ('a' | 'b' 'c')+ ('d')? ('e' | 'f')* ;",
    "grammar T; fragment D: [0-9]; NUM: D+ ('.' D+)?; start: NUM;",
    "grammar T; tokens { A, B } start: A B;",
    "grammar A;\nstart : 'a' b* EOF ;\nb : ID | INT ;\nID : [a-z]+ ;\nINT : [0-9]+ ;\nWS : [ \\t\\n]+ -> skip ;\n",
    "grammar B;\nexpr : expr '+' term | term ;\nterm : NUM | '(' expr ')' ;\nNUM : [0-9]+ ;\n",
    "grammar C;\nstart : x=ID ('=' y+=ID)? ~'q' ;\nID : 'a'..'z'+ ;\n",
    # token rules used before they are defined, themselves alternatives or sequences, next to other elements and under labels
    "grammar D;\nstart : term (ops+=OP rest+=term)* ;\nterm : 'a' | 'x' ;\nOP : 'plus' | 'minus' ;\n",
    "grammar E;\nstart : KW 'a' | 'x' KW? 'a' ;\nKW : 'i' 'f' ;\n",
    "grammar F;\nstart : SIGN? 'a' (s+=SIGN 'a')* ;\nSIGN : 'pos' | 'neg' | 'eq' 'eq' ;\n",
    "grammar G;\nstart : item (SEP item)* ;\nitem : 'a' | 'x' | '(' start ')' ;\nSEP : 'and' | 'or' ;\n",
]


def shard_antlr(m, items):
    from tatsu.g2e import translate
    for text in items:
        try:
            import contextlib, io
            with contextlib.redirect_stderr(io.StringIO()):
                model = translate(text=text, name='T')
        except Exception as e:  # noqa
            m.note('antlr_translation_failed', f'{type(e).__name__}: {str(e)[:80]}')
            continue
        check_model(m, text, model, ['a', 'a b', '1+2', '(1)', 'a=b', 'ab x', 'cd x', 'q x', 'zz x', 'if x', ', x', 'abc', 'bcd', 'aef', 'x',
                                    'a plus x', 'a plus x minus a', 'a minus', 'if a', 'x if a', 'x a', 'pos a', 'pos a neg a', 'eq eq a', 'a eqeq a', 'a and x', 'a or x and a', '(a)', '( a and x )', 'a and'], source='antlr')


def run(rc):
    quick = rc.tier == 'quick'
    exps = c01.expressions(3)
    rc.pmap(shard_exprs, exps, inputs=list(gs.inputs(['a', 'b', ' '], 2 if quick else 3)))
    rc.pmap(shard_cuts, [p for p in c05.programs(2, 1) if not p[0].startswith('include-')][::1 if not quick else 3], inputs=list(gs.inputs(['1', '2'], 3)))
    rc.pmap(shard_features, list(FEATURES.items()), chunk=1)
    rc.pmap(shard_stress, list(stress_lexemes(2 if quick else 3)))
    rc.pmap(shard_antlr, ANTLR, chunk=1)
    c = rc.total.counts
    rc.rule = ('every C01 expression tree (<=3 nodes) with helper rules, the C05 cut corpus, ' + str(len(FEATURES)) + ' feature grammars (every directive, keywords, '
               'params/kwparams, @name/@nomemo/@override, based and included rules, typed rules, $->, @meta, alerts, constants, joins, lookaheads, long '
               'choices/sequences, unicode), tokens and patterns built from all strings of length <= ' + ('2' if quick else '3') + " over {' \" \\ / LF ` { } a space}, "
               'the feature grammars reloaded from JSON, and ANTLR translations; each model: pretty -> compile -> compare facts, parses and second pretty; '
               'railroads; non-trivial = input accepted by the original model')
    if quick:
        rc.cap('quick tier uses every third program of the cut corpus')
    rc.coverage['json_reload_failed'] = sorted(rc.total.sets.get('json_reload_failed', ()))
    rc.coverage['antlr_translation_failed'] = sorted(rc.total.sets.get('antlr_translation_failed', ()))
    rc.assumptions += ['railroad width consistency is what railmath asserts itself (assert_one_length); the check requires that rendering completes without tripping it']


def replay(data):
    import sys
    from ..replay import replay_by_rerun
    return replay_by_rerun(sys.modules[__name__], data)
