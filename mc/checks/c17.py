"""C17 — constant expressions in grammars are evaluated in a sandbox.

Every builtin name x argument tuples x syntactic routes, evaluated (a) through
is_eval_safe/safe_eval directly and (b) as a `constant` / ^`alert` in a real
parse, inside worker processes in which
  * an interpreter audit hook records file/import/exec/compile/input/os/
    subprocess/socket events raised while an evaluation is armed, and
  * every impure builtin is replaced by a recording stub that raises instead of
    acting (so a leak is observed, never executed).
"""
from __future__ import annotations

import builtins
import sys

PROPERTY = 'C17'
LEVEL = 'exploration'

IMPURE = ['open', 'eval', 'exec', 'compile', 'input', 'exit', 'quit', 'help', 'breakpoint', 'print', 'delattr', 'setattr',
          'getattr', 'hasattr', 'vars', 'dir', 'globals', 'locals', 'id', '__import__', 'memoryview', 'copyright', 'credits', 'license',
          'aiter', 'anext', 'super', 'type', 'object', 'isinstance', 'issubclass', 'property', 'staticmethod', 'classmethod', 'dict', 'bytearray']
# the interpreter and the library call these constantly: they are judged by exposure (the bare
# name must not evaluate), not by a recording stub
HOT = {'getattr', 'hasattr', 'setattr', 'id', 'isinstance', 'issubclass', 'type', 'vars', 'dir', 'super', 'object', 'dict',
       'property', 'staticmethod', 'classmethod', 'bytearray', 'memoryview'}
PURE = ['abs', 'all', 'any', 'ascii', 'bin', 'callable', 'chr', 'divmod', 'format', 'hash', 'hex', 'iter', 'len', 'max', 'min',
        'next', 'oct', 'ord', 'pow', 'repr', 'round', 'sorted', 'sum']
FORBIDDEN_EVENTS = ('open', 'import', 'exec', 'compile', 'builtins.input', 'os.', 'subprocess.', 'socket.', 'shutil.', 'ctypes', 'pty.')

ARGS = ['', "'x'", "'1+1'", '1', "'/nonexistent'", "'os'"]

STATE = {'armed': False, 'events': [], 'calls': [], 'installed': False}


class Leak(BaseException):
    pass


def install():
    if STATE['installed']:
        return
    STATE['installed'] = True
    real = {}

    def mkstub(name, orig):
        def stub(*a, **k):
            if STATE['armed']:
                # only calls made by code of the evaluated expression count (the library
                # itself uses id/isinstance/getattr while checking the expression)
                f = sys._getframe(1)
                while f is not None:
                    if f.f_code.co_filename == '<string>' and f.f_code.co_name == '<module>':
                        STATE['calls'].append(name)
                        raise Leak(name)
                    f = f.f_back
            return orig(*a, **k)
        stub.__name__ = name
        stub.__qualname__ = name
        return stub

    for name in IMPURE:
        if hasattr(builtins, name):
            orig = getattr(builtins, name)
            real[name] = orig
            if isinstance(orig, type) or name in HOT:
                continue     # judged by exposure of the name
            setattr(builtins, name, mkstub(name, orig))
    STATE['real'] = real

    def hook(event, args):
        if not STATE['armed']:
            return
        if any(event == f or event.startswith(f) for f in FORBIDDEN_EVENTS):
            # the sandbox's own compile() of the expression is not a leak: only events raised
            # while code of the evaluated expression ("<string>") is on the stack count
            f = sys._getframe(1)
            inside = False
            while f is not None:
                if f.f_code.co_filename == '<string>' and f.f_code.co_name == '<module>':
                    inside = True
                    break
                f = f.f_back
            if inside:
                STATE['events'].append(event)

    sys.addaudithook(hook)
    import tatsu.util.safeeval as se
    se.safe_builtins.cache_clear()
    se._check_safe_eval_cached.cache_clear()


def routes(name, args):
    call = f'{name}({args})'
    first = args.split(',')[0] if args else "'x'"
    return [
        ('direct', call),
        ('field', '{' + call + '}'),                    # interpolated as an f-string field by a constant
        ('nested-fstring', 'f"{' + call.replace('"', "'") + '}"'),
        ('comprehension', f'[{call} for _i in (1,)]'),
        ('lambda', f'(lambda: {call})()'),
        ('conditional', f'{call} if 1 else 0'),
        ('walrus', f'[_y := {name}, _y({args})]'),
        ('starred', f'{name}(*[{args}])'),
        ('subscript', f'[{name}][0]({args})'),
        ('key-callback', f'sorted([{first}], key={name})'),
        ('max-callback', f'max([{first}], key={name})'),
        ('bound-dunder', f'{name}.__call__({args})'),
        ('self-dunder', f'{name}.__self__'),
        ('format-dunder', "'{0.__class__}'.format(" + name + ')'),
        ('format-map', "'{k.__class__}'.format_map({'k': " + name + '})'),
        ('percent', "'%s' % (" + call + ',)'),
        ('bare-name', name),
    ]


DATA_OK = (str, int, float, bool, type(None), complex, bytes)


def plain(v, depth=0):
    if isinstance(v, DATA_OK):
        return True
    if depth < 4 and isinstance(v, (list, tuple, set, frozenset)):
        return all(plain(x, depth + 1) for x in v)
    if depth < 4 and isinstance(v, dict):
        return all(plain(k, depth + 1) and plain(x, depth + 1) for k, x in v.items())
    return False


def reaches_dunder(v) -> bool:
    s = v if isinstance(v, str) else None
    if s is None:
        return False
    return "<class '" in s or '<built-in' in s or '<module' in s or '<function' in s or '__' in s and 'object at' in s


def armed_eval(f):
    STATE['events'].clear()
    STATE['calls'].clear()
    STATE['armed'] = True
    try:
        try:
            return ('value', f())
        except Leak as e:
            return ('leak', str(e))
        except SystemExit:
            return ('exit', None)
        except BaseException as e:  # noqa
            return ('raised', type(e).__name__)
    finally:
        STATE['armed'] = False


def judge(m, route, name, expr, via, res, ctx_names):
    kind, val = res
    leaked = list(STATE['calls'])
    events = list(STATE['events'])
    impure = name in IMPURE or name.endswith(('Error', 'Warning', 'Exception')) or name in ('exit', 'quit')
    desc = dict(expression=expr, route=route, via=via, outcome=[kind, repr(val)[:120]])
    if leaked:
        m.violation(f'impure-builtin-called/{leaked[0]}', leaked=leaked, **desc)
    if events:
        m.violation(f'forbidden-audit-event/{events[0].split(".")[0]}', events=events, **desc)
    if kind == 'exit':
        m.violation('process-exit', **desc)
    if kind == 'value':
        if reaches_dunder(val):
            m.violation(f'dunder-value-obtained/{route}', **desc)
        elif not plain(val) and via == 'safe_eval' and route not in ('bare-name',):
            # a non-data object escaped evaluation (function, type, module ...)
            m.note('object_results', (route, type(val).__name__))
        if impure and via != 'alert' and route == 'bare-name' and val != '<rejected>' and not (isinstance(val, str) and (val == expr or val.startswith('<Failed'))):
            m.violation(f'impure-name-exposed/{name}', **desc)


def shard(m, items):
    install()
    from tatsu import peg
    from tatsu.exceptions import FailedParse, FailedSemantics
    from tatsu.util.safeeval import SecurityError, is_eval_safe, safe_builtins, safe_eval

    def grammar_for(text, alert=False):
        const = peg.Alert(literal=text, level=1) if alert else peg.Constant(literal=text)
        seq = peg.Sequence(sequence=[peg.Named(name='a', exp=peg.Token(token='t')), peg.Named(name='c', exp=const) if not alert else const])
        return peg.Grammar('G', [peg.Rule(name='start', exp=seq)])

    for name in items:
        for args in ARGS:
            for route, expr in routes(name, args):
                ctx = dict(safe_builtins())
                ctx.update({'a': 't', 'k': {'n': 1}})
                # (a) helper route
                def direct():
                    if is_eval_safe(expr, ctx):
                        return safe_eval(expr, ctx)
                    return '<rejected>'
                res = armed_eval(direct)
                m.add('evaluations')
                if res != ('value', '<rejected>'):
                    m.add('nontrivial')
                judge(m, route, name, expr, 'safe_eval', res, ctx)
                # pure builtins: same value as plain eval over the same context
                if name in PURE and route == 'direct' and res[0] == 'value' and res[1] != '<rejected>':
                    try:
                        want = eval(expr, {'__builtins__': {}}, dict(ctx))  # noqa: S307
                        if plain(want) and want != res[1]:
                            m.violation('safe-value-differs', expression=expr, got=repr(res[1])[:100], want=repr(want)[:100])
                    except Exception:  # noqa
                        pass
                # (b) through a real parse, as constant and as alert
                if args in ('', "'x'", "'/nonexistent'") or route in ('direct', 'field'):
                    for alert in (False, True):
                        try:
                            g = grammar_for(expr, alert)
                        except Exception as e:  # noqa
                            m.add('grammar_build_failed')
                            continue

                        def viaparse():
                            try:
                                return g.parse('t')
                            except (FailedParse, FailedSemantics) as e:
                                return f'<{type(e).__name__}>'
                        res2 = armed_eval(viaparse)
                        m.add('evaluations')
                        val = res2[1]
                        if res2[0] == 'value' and isinstance(val, dict):
                            val = val.get('c')
                        judge(m, route, name, expr, 'alert' if alert else 'constant', (res2[0], val), ctx)
        m.add('names')
    if items:
        m.sample({'name': items[0], 'routes': [r for r, _ in routes(items[0], ARGS[1])], 'args': ARGS})


HISTORY_POOL = [
    ("start: secret:'t' c:`{secret}!` ;", 't'),
    ("start: a:'t' c:`{secret}` ;", 't'),
    ("start: max:'t' c:`{max}` ;", 't'),
    ("start: a:'t' c:`max(1, 7)` ;", 't'),
    ("start: a:'t' c:`len(a)` ;", 't'),
    ("start: len:'t' c:`{len}{len}` ;", 't'),
    # assignment expressions write into the evaluation's own name space only; rules without named elements too
    ("start: 't' `(tally := 7)` ;", 't'),
    ("start: 't' `tally` ;", 't'),
    ("start: 't' `(len := 7)` ;", 't'),
    ("start: 't' `len('xyz')` ;", 't'),
    ("start: a:'t' c:`[tally := 3, tally + 1]` ;", 't'),
]


def run_history(hist):
    """Executed in a pristine forked child: the pool items of `hist` in order."""
    import tatsu
    out = []
    for i in hist:
        g, t = HISTORY_POOL[i]
        try:
            v = tatsu.compile(g + f'\n# h{i}\n').parse(t)
            out.append(('ok', dict(v) if isinstance(v, dict) else v))
        except Exception as e:  # noqa
            out.append(('raised', type(e).__name__))
    return out


def history_shard(m, items):
    """An evaluation can read only the names bound in the *current* AST: every call of
    every history (earlier parses bound other names) must give what it gives when run first."""
    from ..forkrun import in_child
    first = {}
    for i in range(len(HISTORY_POOL)):
        r = in_child(run_history, (i,))
        first[i] = r[1][0] if r[0] == 'ok' else r
    for hist in items:
        r = in_child(run_history, hist)
        m.add('evaluations', len(hist))
        m.add('history_cases')
        if r[0] != 'ok':
            m.violation('history/harness-error', history=list(hist), error=r[1])
            continue
        for pos, (i, got) in enumerate(zip(hist, r[1])):
            if got != first[i]:
                m.violation('history/constant-depends-on-earlier-parses', history=[HISTORY_POOL[j][0] for j in hist], position=pos,
                            got=got, when_run_first=first[i])
        if len(hist) > 1:
            m.add('nontrivial')


FRAME_ROUTES = [
    # a generator that finds itself through a list created with the walrus operator, then walks its
    # caller frames to the real builtins (found by an independent sub-agent on the unchanged tree)
    "[abs := [], abs.append((len.gi_frame.f_back.f_back.f_globals['builtins'].open('/nonexistent').read() for len in abs)), next(abs[0])]",
    "[abs := [], abs.append((len.gi_frame.f_back.f_back.f_builtins['open']('/nonexistent') for len in abs)), next(abs[0])]",
    "[abs := [], abs.append((len.gi_frame.f_back.f_locals for len in abs)), next(abs[0])]",
    "[abs := [], abs.append((len.gi_frame.f_back.f_code.co_consts for len in abs)), next(abs[0])]",
    "(i for i in (1,)).gi_frame.f_globals",
    "(i for i in (1,)).gi_code.co_names",
    "[k := {'n': (j.gi_frame.f_back.f_back.f_globals for j in ())}]",
    "sorted([1], key=(lambda v: v).__call__)",
    "max.__self__.eval('1')",
    "a.format.__self__",
    "[abs := [], abs.append((sum.gi_yieldfrom for sum in abs)), next(abs[0])]",
]


MUST_REJECT = [
    # the run-time format mini-language reaches attributes the expression check cannot see,
    # also when the bound method is not called directly but handed to a higher-order builtin
    "max([a], key='{0.__class__.__mro__}'.format)",
    "min([a], key='{0:{0.__class__}}'.format)",
    "sorted([a], key='{0.__class__}'.format)",
    "sorted([{'k': a}], key='{k.__class__}'.format_map)",
    "[f := '{0.__class__}'.format, f(a)]",
    "a.__class__", "a.__class__.__mro__", "len.__self__", "(1).__class__", "a.__reduce__",
]


FORBIDDEN_ATTRS = ['__class__', '__dict__', '__doc__', '__globals__', '__setattr__', 'format', 'format_map', 'gi_frame', 'f_back', 'co_code', 'cr_frame', 'tb_frame']
ATTR_POSITIONS = [
    'a.{X}', 'a.{X}()', 'a.{X}[0]', 'a.{X}.real', 'a.real.{X}', '(a).{X}', 'a[0].{X}', 'len(a).{X}',
    "f'{{a.{X}}}'", "f'{{a.{X}!r:>4}}'", '(lambda: a.{X})', '(lambda x=a.{X}: x)', '[y := a.{X}]', 'len(a, key=a.{X})', 'a[a.{X}:]',
    'a.{X} if a else a', 'a if a.{X} else a', 'a and a.{X}', 'a == a.{X}', 'not a.{X}', '-a.{X}', '[a.{X}]', '{{a.{X}}}', '{{a: a.{X}}}', '(a.{X},)', '*a.{X},',
    '[x for x in a.{X}]', '[x.{X} for x in [a]]', '[x for x in [a] if x.{X}]',
    # attribute nodes in Store context: targets of comprehensions
    '[0 for a.{X} in [1]]', '{{0 for a.{X} in [1]}}', '{{0: 0 for a.{X} in [1]}}', 'list(0 for a.{X} in [1])', '[0 for (a.{X}, y) in [(1, 2)]]',
    '[0 for [a.{X}, y] in [(1, 2)]]', '[0 for (*a.{X},) in [(1,)]]', '[0 for a[0].{X} in [1]]', '[0 for y in [1] for a.{X} in [1]]',
]


def spellings(x):
    """The name and its other spellings: Python normalises identifiers (NFKC) while parsing, so a full-width low line or
    letter spells the same attribute or builtin while the expression text does not contain the ASCII name."""
    yield x
    seen = {x}
    for i, ch in enumerate(x):
        alt = '\uff3f' if ch == '_' else (chr(ord(ch) - 0x20 + 0xff00) if ch.isascii() and ch.isalpha() else None)
        if alt and (i in (0, 1, len(x) - 1, len(x) - 2) or ch != '_'):
            y = x[:i] + alt + x[i + 1:]
            if y not in seen and (ch == '_' or i in (0, len(x) // 2)):
                seen.add(y)
                yield y
    if x.startswith('__') and x.endswith('__') and len(x) > 4:
        core, fw = x[2:-2], '\uff3f'
        for y in ('_' + fw + core + '_' + fw, fw + '_' + core + fw + '_', '_' + fw + core + fw + '_', fw + fw + core + fw + fw, '_' + fw + core + fw + fw):
            if y not in seen:        # no two ASCII low lines side by side
                seen.add(y)
                yield y
    full = ''.join('\uff3f' if ch == '_' else (chr(ord(ch) - 0x20 + 0xff00) if ch.isascii() and ch.isalpha() else ch) for ch in x)
    if full not in seen and not x.startswith('_'):
        yield full


def must_reject(rc):
    install()
    from tatsu.util.safeeval import is_eval_safe, safe_builtins
    import ast as _ast
    grid = []
    for pos in ATTR_POSITIONS:
        for x0 in FORBIDDEN_ATTRS:
            for x in spellings(x0):
                e = pos.format(X=x)
                try:
                    _ast.parse(e, mode='eval')
                except SyntaxError:
                    continue
                grid.append(e)
    # the impure builtins under their other spellings, called directly and through a walrus alias
    for name in IMPURE:
        for sp in spellings(name):
            if sp != name:
                for e in (f"{sp}('x')", f"[len := {sp}, len('x')][1]", f"(lambda: {sp})()('x')"):
                    try:
                        _ast.parse(e, mode='eval')
                    except SyntaxError:
                        continue
                    grid.append(e)
    if rc.tier != 'quick':
        # thorough: every dunder and introspection attribute any context value or builtin has, and positions nested in positions
        more = sorted({a for v in list(safe_builtins().values()) + ['t', 1, [1], {'k': 1}, (i for i in ())] for a in dir(v)
                       if a.startswith('__') or a.startswith(('gi_', 'cr_', 'ag_', 'f_', 'tb_', 'co_'))} - set(FORBIDDEN_ATTRS))
        for pos in ATTR_POSITIONS:
            for x in more:
                e = pos.format(X=x)
                try:
                    _ast.parse(e, mode='eval')
                except SyntaxError:
                    continue
                grid.append(e)
        for outer in ATTR_POSITIONS[:29]:
            for inner in ATTR_POSITIONS:
                for x in ('__class__', 'format', 'gi_frame'):
                    e = outer.replace('a.{X}', '(' + inner.format(X=x) + ').real').replace('{{', '{').replace('}}', '}')
                    if '{X}' in e:
                        continue
                    try:
                        _ast.parse(e, mode='eval')
                    except SyntaxError:
                        continue
                    grid.append(e)
    rc.coverage['forbidden_attribute_grid'] = len(grid)
    for expr in grid:
        ctx = dict(safe_builtins())
        ctx.update({'a': 't'})
        rc.add('evaluations')
        rc.add('nontrivial')
        if is_eval_safe(expr, ctx):
            rc.violation('expression-reaching-dunder-attributes-accepted', expression=expr)
    for expr in MUST_REJECT:
        ctx = dict(safe_builtins())
        ctx.update({'a': 't'})
        rc.add('evaluations')
        if is_eval_safe(expr, ctx):
            rc.violation('expression-reaching-dunder-attributes-accepted', expression=expr)


def dangerous(v, depth=0):
    """Frames, code objects, modules, or a namespace dictionary (frame locals/globals) inside a value."""
    import types
    if isinstance(v, (types.FrameType, types.CodeType, types.ModuleType, types.TracebackType)):
        return True
    if depth > 3:
        return False
    if isinstance(v, dict):
        if '__builtins__' in v or any(isinstance(x, types.BuiltinFunctionType) for x in v.values()):
            return True
        return any(dangerous(x, depth + 1) for x in v.values())
    if isinstance(v, (list, tuple, set)):
        return any(dangerous(x, depth + 1) for x in v)
    return False


def frame_routes(rc):
    """Generator / frame / code introspection through non-dunder attributes."""
    install()
    from tatsu.util.safeeval import is_eval_safe, safe_builtins, safe_eval
    from ..runner import Merge
    m = rc.total
    for expr in FRAME_ROUTES:
        ctx = dict(safe_builtins())
        ctx.update({'a': 't'})

        def direct():
            if is_eval_safe(expr, ctx):
                return safe_eval(expr, ctx)
            return '<rejected>'
        res = armed_eval(direct)
        rc.add('evaluations')
        desc = dict(expression=expr, outcome=[res[0], repr(res[1])[:160]])
        if STATE['calls']:
            rc.violation(f'frame-introspection/impure-builtin-called/{STATE["calls"][0]}', **desc)
        elif STATE['events']:
            rc.violation(f'frame-introspection/forbidden-audit-event/{STATE["events"][0]}', **desc)
        elif res[0] == 'value' and res[1] != '<rejected>' and dangerous(res[1]):
            rc.violation('frame-introspection/interpreter-object-obtained', **desc)
        if res != ('value', '<rejected>'):
            rc.add('nontrivial')


def attribute_graph(rc):
    """BFS over the non-dunder attribute graph from every context value, depth 2 (thorough: 3)."""
    maxdepth = 2 if rc.tier == 'quick' else 3
    import types
    from tatsu.util.safeeval import safe_builtins
    sinks = 0
    seen = 0
    real = STATE.get('real', {})
    bad_objs = {id(getattr(builtins, n)) for n in IMPURE if hasattr(builtins, n)} | {id(v) for v in real.values()}
    for name, v in list(safe_builtins().items()) + [('<str>', 't'), ('<dict>', {'n': 1}), ('<list>', [1]), ('<int>', 1)]:
        frontier = [((name,), v)]
        for _depth in range(maxdepth):
            nxt = []
            for path, obj in frontier:
                for a in dir(obj):
                    if a.startswith('__'):
                        continue
                    try:
                        w = getattr(obj, a)
                    except Exception:  # noqa
                        continue
                    seen += 1
                    if isinstance(w, types.ModuleType) or id(w) in bad_objs:
                        sinks += 1
                        rc.violation('attribute-graph-reaches-sink', path=list(path + (a,)), sink=repr(w)[:80])
                    elif callable(w) and len(path) < maxdepth:
                        nxt.append((path + (a,), w))
            frontier = nxt
    rc.add('evaluations', seen)
    rc.coverage['attribute_graph'] = {'edges_followed': seen, 'sinks': sinks}


def run(rc):
    names = sorted(vars(builtins))
    rc.pmap(shard, names, chunk=max(1, len(names) // 32))
    import itertools
    n = len(HISTORY_POOL)
    hists = [h for k in ((2,) if rc.tier == 'quick' else (2, 3)) for h in itertools.product(range(n), repeat=k)]
    hists += [h for h in itertools.product(range(6), repeat=3)]      # the first six (names bound by ASTs) also in triples
    rc.pmap(history_shard, hists)
    rc.coverage['histories'] = len(hists)
    install()
    frame_routes(rc)
    must_reject(rc)
    attribute_graph(rc)
    c = rc.total.counts
    rc.rule = (f'every name in vars(builtins) ({len(names)}) x {len(ARGS)} argument tuples x 17 syntactic routes (direct call, f-string field, nested '
               'f-string, comprehension, lambda, conditional, walrus, starred, subscript, key= callbacks, dunder attribute chains, str.format / '
               'format_map field access, % formatting, bare name), through is_eval_safe/safe_eval and as `constant` and ^`alert` in a real parse, '
               'under an audit hook with impure builtins replaced by recording stubs; plus a BFS of the non-dunder attribute graph (depth 2) from every '
               'context value; plus generator/frame/code introspection routes through non-dunder attributes; plus every history of length 2 (thorough 3) over a pool of 11 constant grammars (triples over the first 6) (names bound by one parse must not be readable by the next), each in a pristine forked child; non-trivial = expression the sandbox did not reject')
    rc.coverage['object_results'] = sorted(map(str, rc.total.sets.get('object_results', ())))[:40]
    rc.assumptions += ['"pure builtin" is judged by an explicit list of impure names (mc/checks/c17.py:IMPURE) and by audit events',
                       'routes are a finite menu of syntactic forms, not all Python expressions']


def replay(data):
    """Re-evaluates a recorded expression (must-reject grid, frame routes) or re-runs a recorded history."""
    d = data['detail']
    sig = data.get('signature', '')
    if 'expression' in d and 'history' not in d:
        install()
        from tatsu.util.safeeval import is_eval_safe, safe_builtins
        ctx = dict(safe_builtins())
        ctx.update({'a': 't'})
        ok = is_eval_safe(d['expression'], ctx)
        print(d['expression'], '-> accepted by is_eval_safe:', ok)
        if ok and ('accepted' in sig or 'frame' in sig):
            print('VIOLATION property=C17 replay=reproduced')
            return 1
        return 0
    if 'history' in d:
        from ..forkrun import in_child
        idx = [i for g in d['history'] for i, (hg, _t) in enumerate(HISTORY_POOL) if hg == g][:len(d['history'])]
        r = in_child(run_history, tuple(idx))
        alone = in_child(run_history, (idx[d['position']],))
        print('in history :', r[1][d['position']] if r[0] == 'ok' else r)
        print('run first  :', alone[1][0] if alone[0] == 'ok' else alone)
        if r[0] == 'ok' and alone[0] == 'ok' and r[1][d['position']] != alone[1][0]:
            print('VIOLATION property=C17 replay=reproduced')
            return 1
        return 0
    import sys
    from ..replay import replay_by_rerun
    return replay_by_rerun(sys.modules[__name__], data)
