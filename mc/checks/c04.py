"""C04 — memoization and tracing never change what a parse returns.

Part A: configuration lattice — every (program, input) of three corpora is
        re-parsed under each alternative configuration and must give the same
        (success, AST modulo parseinfo, error class) as the default.
Part B: eviction faults — BoundedDict.get asks the chooser whether the entry
        was evicted; all patterns with <= k evictions per parse are explored
        (a superset of "any cache capacity").
Part C: BoundedDict against a list-based model, BFS over operation sequences.
"""
from __future__ import annotations

import itertools

from .. import gramspace as gs
from .. import impl
from ..explore import Chooser, explore
from . import c01, c05

PROPERTY = 'C04'
LEVEL = 'model_checking'

CONFIGS = [
    ('memo-off', dict(memoization=False), False),           # name, settings, ok for left recursion
    ('perline-0.01', dict(perlinememos=0.01), True),
    ('perline-1', dict(perlinememos=1), True),
    ('prune-off', dict(prune_memos_on_cut=False), True),
    ('trace', dict(trace=True, colorize=False), True),
    ('trace-color', dict(trace=True, colorize=True), True),
    ('parseinfo', dict(parseinfo=True), True),
    ('memo-off+trace', dict(memoization=False, trace=True), False),
    ('perline-0.01+prune-off+parseinfo', dict(perlinememos=0.01, prune_memos_on_cut=False, parseinfo=True), True),
]

ERROR_TIE = "start: a 'a' | b | a 'b' ;\n\na: s 'a' | 'bb' ;\n\ns: 'a' 'b' ;\n\nb: 'a' c ;\n\nc: /b+/ ;\n"

LR_GRAMMARS = [
    ('lr-direct', "start: e $ ;\n\ne: e '+' t | t ;\n\nt: t '*' f | f ;\n\nf: '(' ~ e ')' | /\\d/ ;\n"),
    ('lr-alias', "start: e $ ;\n\ne: x '+' t | t ;\n\nx: e ;\n\nt: /\\d/ ;\n"),
    ('lr-named', "start: e $ ;\n\ne: l:e op:'-' r:t | t ;\n\nt: /\\d/ | '(' @:e ')' ;\n"),
    # an ordinary alternative before the left-recursive one re-enters the rule further on while the seed is growing
    ('lr-after-plain-alternative', "start: e $ ;\n\ne: t '*' t | e '+' t | t ;\n\nt: '(' e ')' | /\\d/ ;\n"),
    ('lr-shared-prefix-cut', "start: e $ ;\n\ne: e '+' t '*' | e '+' t | t ;\n\nt: '(' ~ e ')' | /\\d/ ;\n"),
]
MEMO_GRAMMARS = [
    ('retry', "start: x 'a' | x 'b' | x ;\n\nx: 'a' y | 'b' ;\n\ny: 'b' | () ;\n"),
    ('look', "start: &x x 'a' | !x 'b' x | x ;\n\nx: 'a' 'b' | 'a' ;\n"),
    ('clo', "start: {x 'b'} {x} ;\n\nx: 'a' | 'b' 'a' ;\n"),
    ('cut', "start: x ~ 'b' | x 'a' | y ;\n\nx: 'a' ;\n\ny: x x | 'b' ;\n"),
    ('named', "start: l:x r:(x | y) | l:y ;\n\nx: v:'a' w:['b'] ;\n\ny: 'b' {x} ;\n"),
    ('stmt', "start: x 'b' 'a' | x 'a' | y ;\n\nx: 'a' | 'b' ;\n\ny: 'a' 'a' | 'a' | 'b' ;\n"),
    # two failures of different classes at the same furthest position (recorded finding: which one is reported depends on re-evaluation)
    ('error-tie', ERROR_TIE),
    ('nostak', "start: x y 'a' | x y ;\n\n@nostak\nx: 'a' | 'b' ;\n\n@nomemo\ny: 'b' | x ;\n"),
]


def outcome(r):
    """(status, ast, error class)"""
    if r[0] == 'ok':
        return ('ok', r[1], None)
    return (r[0], None, r[1])


def lattice_case(m, label, model, text, is_lr, only=None):
    base = impl.parse(model, text)
    m.add('evaluations')
    bo = outcome(base)
    consumed = base[0] == 'ok'
    for name, settings, lr_ok in CONFIGS:
        if is_lr and not lr_ok:
            continue
        if only is not None and name not in only:
            continue
        got = impl.parse(model, text, _keep_parseinfo=False, **settings)
        m.add('evaluations')
        m.add('transitions')
        if outcome(got) != bo:
            kind = 'status' if got[0] != base[0] else ('ast' if got[0] == 'ok' else 'error-class')
            sig = f'A/{name}/{kind}'
            if kind == 'error-class' and label == ERROR_TIE and base[2:] == got[2:]:
                # recorded finding: of several failures at the furthest position the one met last is reported (the test-suite pins
                # that), and a rule replayed from the memo does not meet its inner failures again
                sig = 'A/error-class/tie-at-the-furthest-position-depends-on-memoization'
            m.violation(sig, grammar=label, input=text, default=base, alt=got, settings=settings)
    m.add('states')
    return consumed


def shard_c01(m, items, inputs=()):
    for e in items:
        g = c01.build_grammar(e)
        model = impl.compile_text(gs.render_grammar(g))
        m.add('programs')
        label = 'start: ' + gs.render(e) + ' (C01 helpers)'
        for t in inputs:
            if lattice_case(m, label, model, t, False):
                m.add('nontrivial')


def shard_c05(m, items, inputs=(), CUT_CONFIGS=None):
    for name, exp, extra, _ne, _nx, _b in items:
        g = c05.mk(exp, extra)
        model = impl.compile_text(gs.render_grammar(g))
        m.add('programs')
        label = '; '.join(gs.render_rule(r) for r in g.rules[1:-1])
        for t in inputs:
            if lattice_case(m, label, model, t, False, only=CUT_CONFIGS):
                m.add('nontrivial')


class FailOn:
    """Semantics: the action of `rule` raises FailedSemantics when its AST equals `value`."""

    def __init__(self, rule, value):
        self.rule, self.value = rule, value

    def _default(self, ast, *a, **k):
        return ast

    def __getattr__(self, name):
        if name.startswith('_') or name != self.rule:
            raise AttributeError(name)

        def action(ast, *a, **k):
            from tatsu.exceptions import FailedSemantics
            if ast == self.value:
                raise FailedSemantics(f'{self.rule} rejects {ast!r}')
            return ast
        return action


SEM_MENU = [('x', 'a'), ('x', 'b'), ('y', 'b'), ('x', ['a', 'b']), ('y', None), ('t', '1'), ('e', '1')]


def semantics_case(m, label, model, text, is_lr):
    """memo on vs off (non-LR) vs tiny cache, under semantic actions that fail."""
    n = 0
    for rule, value in SEM_MENU:
        if rule not in model.rulemap:
            continue
        base = outcome(impl.parse(model, text, semantics=FailOn(rule, value)))
        m.add('evaluations')
        for name, settings in (('memo-off', dict(memoization=False)), ('perline-0.01', dict(perlinememos=0.01)), ('prune-off', dict(prune_memos_on_cut=False))):
            if is_lr and name == 'memo-off':
                continue
            got = outcome(impl.parse(model, text, semantics=FailOn(rule, value), **settings))
            m.add('evaluations')
            m.add('transitions')
            n += 1
            if got != base:
                m.violation(f'A/semantic-failure/{name}', grammar=label, input=text, failing_action=[rule, value], default=base, alt=got)
    return n


def shard_text(m, items):
    for label, text, inputs, is_lr in items:
        model = impl.compile_text(text)
        m.add('programs')
        impl.rule_reach(m, 'handwritten-grammar-rules', label, model, inputs)
        for t in inputs:
            if lattice_case(m, text, model, t, is_lr):
                m.add('nontrivial')
            semantics_case(m, text, model, t, is_lr)
        m.sample({'grammar': text, 'inputs': len(inputs), 'configs': [c[0] for c in CONFIGS if (c[2] or not is_lr)]})


# ----------------------------------------------------------------- Part B

class EvictionSeam:
    """Replaces tatsu.contexts.core.BoundedDict for the duration of a parse."""

    chooser: Chooser | None = None
    hits = 0

    @classmethod
    def install(cls):
        import tatsu.contexts.core as core
        from tatsu.util.boundeddict import BoundedDict

        if getattr(core.BoundedDict, '_verif_faulty', False):
            return

        class FaultyDict(BoundedDict):
            _verif_faulty = True

            def get(self, key, default=None):
                if key in self and EvictionSeam.chooser is not None:
                    from tatsu.exceptions import FailedLeftRecursion
                    EvictionSeam.hits += 1
                    if EvictionSeam.chooser.pick(2, 'evicted?') == 1:
                        dict.__delitem__(self, key)
                        return default
                return super().get(key, default)

        core.BoundedDict = FaultyDict


def eviction_case(m, label, model, text, bound, is_lr):
    EvictionSeam.install()
    EvictionSeam.chooser = None
    base = outcome(impl.parse(model, text))
    if not is_lr:
        off = outcome(impl.parse(model, text, memoization=False))
        if off != base:
            m.violation('B/memo-off-differs', grammar=label, input=text, default=base, off=off)

    def body(ch):
        EvictionSeam.chooser = ch
        EvictionSeam.hits = 0
        try:
            return outcome(impl.parse(model, text))
        finally:
            EvictionSeam.chooser = None

    outs = set()
    n = 0
    for choices, ch, obs in explore(body, bound=bound):
        n += 1
        m.add('evaluations')
        m.add('transitions', len(choices))
        if ch.deviations:
            m.add('nontrivial')
        outs.add(repr(obs))
        if obs != base:
            m.violation('B/eviction-changes-outcome', grammar=label, input=text, evictions=[i for i, c in enumerate(choices) if c],
                        lookups=len(choices), default=base, got=obs)
    m.add('states', n)
    m.add('eviction_cases')
    return n


def shard_evict(m, items, bound=1):
    for label, text, inputs, is_lr in items:
        model = impl.compile_text(text)
        total = 0
        for t in inputs:
            total += eviction_case(m, text, model, t, bound, is_lr)
        m.sample({'part': 'B', 'grammar': text, 'inputs': len(inputs), 'executions_with_evictions': total, 'bound': bound})


# ----------------------------------------------------------------- Part C

def boundeddict_bfs(rc, depth):
    from tatsu.util.boundeddict import BoundedDict

    keys = ['a', 'b', 'c']
    ops = [('set', k) for k in keys] + [('get', k) for k in keys] + [('del', k) for k in keys] + \
          [('in', k) for k in keys] + [('upd', ('a', 'b')), ('upd', ('c', 'a'))]
    states = 0
    trans = 0
    for cap in (1, 2, 3):
        seen = set()
        frontier = [()]
        while frontier:
            nxt = []
            for hist in frontier:
                for op in ops:
                    h2 = hist + (op,)
                    real = BoundedDict(cap)
                    model: list = []   # ordered list of (k, v); newest last
                    ok = True
                    for i, (o, k) in enumerate(h2):
                        v = i
                        if o == 'set':
                            real[k] = v
                            model = [(kk, vv) for kk, vv in model if kk != k] + [(k, v)]
                        elif o == 'get':
                            want = dict(model).get(k)
                            if real.get(k) != want:
                                ok = False
                        elif o == 'in':
                            if (k in real) != (k in dict(model)):
                                ok = False
                        elif o == 'del':
                            if k in dict(model):
                                del real[k]
                                model = [(kk, vv) for kk, vv in model if kk != k]
                            else:
                                try:
                                    del real[k]
                                    ok = False
                                except KeyError:
                                    pass
                        elif o == 'upd':
                            real.update({kk: (v, kk) for kk in k})
                            for kk in k:
                                model = [(a, b) for a, b in model if a != kk] + [(kk, (v, kk))]
                        while len(model) > cap:
                            model.pop(0)
                        if list(real.items()) != model or len(real) > cap:
                            ok = False
                        if not ok:
                            break
                    trans += 1
                    if not ok:
                        rc.violation('C/boundeddict-differs-from-model', capacity=cap, history=h2, real=list(real.items()), model=model)
                        continue
                    canon = (cap, tuple(k for k, _ in model))
                    if len(h2) < depth:
                        if canon not in seen or True:
                            nxt.append(h2)
                    seen.add(canon)
            frontier = nxt if len(frontier[0]) + 1 < depth else []
        states += len(seen)
    rc.add('states', states)
    rc.add('transitions', trans)
    rc.add('evaluations', trans)
    rc.coverage['boundeddict_model'] = {'histories': trans, 'canonical_states': states, 'depth': depth}


def run(rc):
    quick = rc.tier == 'quick'
    # corpus 1: C01 expressions that call helper rules (memo collisions: same rule, same position, different alternatives)
    exps = [e for e in c01.expressions(3) if c01.in_language(e) is None and 'call' in gs.kinds(e)]
    if quick:
        exps = [e for e in exps if sum(1 for x in gs.subexps(e) if x[0] == 'call') >= 2 or gs.kinds(e) & {'alt', 'look', 'nlook', 'clo', 'pclo', 'opt'}]
    inputs = list(gs.inputs(['a', 'b', ' '], 3 if quick else 4))
    import time as _t
    t0 = _t.time()
    rc.pmap(shard_c01, exps, inputs=inputs)
    rc.coverage['phase_s'] = {'c01-corpus': round(_t.time() - t0, 1)}
    # corpus 2: cut corpus (prune_memos_on_cut)
    progs = list(c05.programs(2, 1))
    if quick:
        progs = progs[::1]
    t0 = _t.time()
    rc.pmap(shard_c05, progs, inputs=list(gs.inputs(['1', '2'], 4 if quick else 6)),
            CUT_CONFIGS=('memo-off', 'perline-0.01', 'prune-off', 'perline-0.01+prune-off+parseinfo') if quick else None)
    rc.coverage['phase_s']['c05-corpus'] = round(_t.time() - t0, 1)
    t0 = _t.time()
    # corpus 3: memo-sensitive and left-recursive hand-written grammars
    memo_inputs = list(gs.inputs(['a', 'b', ' '], 4 if quick else 5))
    lr_inputs = [' '.join(t) for n in range(0, 5 if quick else 7) for t in itertools.product(['1', '+', '*', '-', '(', ')'][:4 if quick else 6], repeat=n)]
    # parenthesised inputs reach the cut inside `'(' ~ e ')'` while a seed is still growing
    def balanced(t):
        d = 0
        for x in t:
            d += (x == '(') - (x == ')')
            if d < 0:
                return False
        return d == 0 and '(' in t
    lr_inputs += [' '.join(t) for n in ((5,) if quick else (7,)) for t in itertools.product(['1', '+', '*', '-', '(', ')'], repeat=n) if balanced(t)]
    lr_inputs = sorted(set(lr_inputs), key=lambda x: (len(x), x))
    items = [(n, g, memo_inputs, False) for n, g in MEMO_GRAMMARS] + [(n, g, lr_inputs, True) for n, g in LR_GRAMMARS]
    rc.pmap(shard_text, items, chunk=1)
    rc.coverage['phase_s']['handwritten'] = round(_t.time() - t0, 1)
    t0 = _t.time()
    # Part B
    ev_inputs = list(gs.inputs(['a', 'b'], 4 if quick else 5))
    ev_inputs = [' '.join(t) for t in ev_inputs]
    lr_small = [' '.join(t) for n in range(0, 4 if quick else 5) for t in itertools.product(['1', '+', '*', '('], repeat=n)]
    bitems = [(n, g, [t for t in ev_inputs], False) for n, g in MEMO_GRAMMARS if n != 'error-tie'] + [(n, g, lr_small, True) for n, g in LR_GRAMMARS]
    # split inputs so that the pool balances
    split = []
    for n, g, ins, lr in bitems:
        for i in range(0, len(ins), 8):
            split.append((n, g, ins[i:i + 8], lr))
    rc.pmap(shard_evict, split, chunk=1, bound=2 if quick else 3)
    rc.coverage['phase_s']['evictions'] = round(_t.time() - t0, 1)
    # Part C
    boundeddict_bfs(rc, 4 if quick else 5)
    c = rc.total.counts
    rc.rule = ('A: (C01 expressions with helper-rule calls, <=3 nodes) x inputs over {a,b,space}; (C05 cut corpus) x inputs over {1,2}; '
               'hand-written memo-sensitive and left-recursive grammars x all short token strings; each re-parsed under '
               f'{len(CONFIGS)} alternative configurations (memoization off only for non-left-recursive grammars). '
               'B: every pattern of <= k evicted memo lookups per parse (k=2 quick, 3 thorough). C: BoundedDict vs list model, all operation '
               'sequences to a depth. non-trivial = accepted input (A) / execution with at least one eviction (B)')
    rc.coverage.update({
        'states': c.get('states', 0), 'transitions': c.get('transitions', 0),
        'traces_validated_against_impl': c.get('evaluations', 0),
        'programs': c.get('programs', 0), 'configs': [x[0] for x in CONFIGS],
        'eviction_cases': c.get('eviction_cases', 0),
    })
    rc.assumptions += ['trace output is discarded (stderr redirected); only the outcome triple (status, AST modulo parseinfo keys, error class) is compared']


def replay(data):
    import sys
    from ..replay import replay_by_rerun
    return replay_by_rerun(sys.modules[__name__], data)
