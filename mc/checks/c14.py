"""C14 — serialized grammar models reload to equivalent parsers.

For every model of the corpus (feature grammars, C01 expressions, lexeme
stress incl. strings that look like style escapes or format specs, one-rule
and many-rule grammars) and each of three routes — JSON (asjsons ->
Grammar.loads), pickle, Python model source (to_parsermodel_sourcecode ->
exec -> GRAMMAR_MODEL): same rules/params/flags, directives, keywords; same
outcomes on all short inputs.  asjson of every parse result / object model /
hand-built cyclic and shared structures terminates, json.dumps accepts it,
and shared or cyclic references appear as reference strings.
"""
from __future__ import annotations

import itertools
import json
import pickle

from .. import gramspace as gs
from .. import impl
from . import c01, c02, c13

PROPERTY = 'C14'
LEVEL = 'exploration'

# values that are not JSON's own: non-finite floats in constants and rule parameters, odd characters in directives
VALUE_GRAMMARS = [
    "start: 'a' c:`1e999` d:`-1e999` ;\n",
    "start[cap=1e999]: 'a' ;\n",
    "start[1e999, -1e999]: 'a' ;\n",
    "@@namechars :: \"-'\"\n\nstart: 'a' 'b' ;\n",
    "@@namechars :: '$\\\\'\n\nstart: 'a' 'b' ;\n",
    "@@namechars :: '\"-'\n\nstart: 'a' 'b' ;\n",
]
STRESS = ['f{x', 'f{x}', 'f{a:>5}', '\\e[1m', '\\e[1mx', '{0}', '{a}', '~a1~', '@', '__class__', '"@":', "'", '"', '\\', '\\n', 'é', '{', '}', '%s', '$', '\x1b[1m',
          'None', 'True', '0', '1.5', ' a ', '\t']


def facts(model):
    return c13.facts(model)


def via_json(model):
    from tatsu.peg import Grammar
    return Grammar.loads(model.asjsons())


def via_pickle(model):
    return pickle.loads(pickle.dumps(model))


def via_source(text, name='Src'):
    import sys
    import types
    import tatsu
    impl.clear_compile_cache()
    from tatsu.api.api import to_parsermodel_sourcecode
    src = to_parsermodel_sourcecode(text, name=name)
    mod = types.ModuleType(f'gensrc_{name}')
    sys.modules[mod.__name__] = mod
    exec(compile(src, f'<model source {name}>', 'exec'), mod.__dict__)
    LAST_SOURCE['module'] = mod
    LAST_SOURCE['parser'] = mod.__dict__.get(f'{name}Parser')
    return mod.__dict__['GRAMMAR_MODEL']


LAST_SOURCE: dict = {}


def compare_parser_class(m, label, model, inputs):
    """The emitted module also carries a <Name>Parser class that parses with its GRAMMAR_MODEL: same outcomes as the model
    (for grammars parsed from their first rule; asmodel=False, since the class builds object models by default)."""
    pcls = LAST_SOURCE.get('parser')
    if pcls is None or impl.with_start(model, {}):
        return
    for t in inputs:
        a = impl.parse(model, t)
        try:
            b = impl.parse(pcls(), t, asmodel=False)     # (the class builds object models unless told otherwise)
        except Exception as e:  # noqa
            b = ('exc', type(e).__name__, str(e)[:100])
        m.add('evaluations', 2)
        if a[0] != b[0] or (a[0] == 'ok' and a[1] != b[1]):
            m.violation('source/parser-class-differs-from-the-model', grammar=label, input=t, model=a, parser_class=b)
            break


def cause(text):
    """Recorded root causes that can explain a failed round trip of this grammar text."""
    import re
    c = []
    if re.search(r"""['"`/](f\{|\\\\e\[)""", text) or re.search(r"""'(f\{|\\\\e\[)""", text):
        c.append('style-prefix-string')
    return '+'.join(c)


def compare(m, label, route, model, other, inputs):
    f1, f2 = facts(model), facts(other)
    if f1 != f2:
        diff = [k for k in f1 if f1[k] != f2[k]]
        why = cause(label)
        route = 'json' if (why and route.startswith('json')) else route
        m.violation(f'{route}/facts-differ/{"+".join(diff)}' + (f'/{why}' if why else ''), grammar=label, original={k: f1[k] for k in diff}, reloaded={k: f2[k] for k in diff})
    # every node of a model is an entry point too: Model.parse() hands over to the grammar that owns the node
    for t in inputs[:2]:
        whole = impl.parse(other, t)
        for r in (other.rules[0], other.rules[-1], other.rules[-1].exp):
            part = impl.parse(r, t)
            m.add('evaluations')
            if part != whole:
                m.violation(f'{route}/node-of-reloaded-model-does-not-reach-its-grammar', grammar=label, input=t, node=type(r).__name__,
                            through_model=whole, through_node=part)
                break
    nt = 0
    for t in inputs:
        a = impl.parse(model, t, _start_policy=True)
        b = impl.parse(other, t, _start_policy=True)
        m.add('evaluations', 2)
        if a[0] == 'ok':
            nt += 1
        if a[0] != b[0] or (a[0] == 'ok' and a[1] != b[1]):
            why = cause(label)
            route = 'json' if (why and route.startswith('json')) else route
            m.violation(f'{route}/parser-differs' + (f'/{why}' if why else ''), grammar=label, input=t, original=a, reloaded=b)
            break
    m.add('nontrivial', nt)


def check_text(m, label, text, inputs, routes=('json', 'pickle', 'source', 'pickle-after-parse', 'json-after-parse')):
    try:
        model = impl.compile_text(text)
    except Exception:  # noqa
        m.add('seed_rejected')
        return
    m.add('programs')
    for route in routes:
        try:
            if route == 'json':
                other = via_json(model)
            elif route == 'pickle':
                other = via_pickle(model)
            elif route in ('pickle-after-parse', 'json-after-parse'):
                # a model that has been used (its optimised copy is cached on it) must serialise as well
                used = impl.compile_text(text)
                for t in inputs[:3]:
                    impl.parse(used, t, _start_policy=True)
                other = via_pickle(used) if route.startswith('pickle') else via_json(used)
            else:
                other = via_source(text)
        except Exception as e:  # noqa
            why = cause(text)
            route = 'json' if (why and route.startswith('json')) else route
            m.violation(f'{route}/reload-raises/{type(e).__name__}' + (f'/{why}' if why else f'/{shape(model)}'), grammar=label, error=str(e)[:200])
            continue
        m.add('evaluations')
        compare(m, label, route, model, other, inputs)
        if route == 'source':
            compare_parser_class(m, label, model, inputs)
    # parse results must be JSON-able
    from tatsu.util.asjson import asjson
    for t in inputs[:20]:
        for asmodel in (False, True):
            try:
                v = model.parse(t, asmodel=asmodel)
            except Exception:  # noqa
                continue
            try:
                json.dumps(asjson(v))
                m.add('evaluations')
            except Exception as e:  # noqa
                m.violation(f'asjson-of-parse-result/{type(e).__name__}', grammar=label, input=t, asmodel=asmodel, error=str(e)[:150])


def shape(model):
    return 'one-rule' if len(model.rules) == 1 else 'many-rules'


def shard_features(m, items, tier='quick'):
    for name, text in items:
        model = impl.compile_text(text)
        inputs = c02.feature_inputs_capped(name, tier, 1200 if tier == 'quick' else 8000, model)
        impl.rule_reach(m, 'feature-grammar-rules', name, model, inputs, **impl.with_start(model, {}))
        check_text(m, text, text, inputs)
        m.sample({'grammar': text})


def shard_exprs(m, items, inputs=()):
    for e in items:
        g = gs.Grammar(rules=[gs.Rule('start', e)] + c01.HELPERS)
        check_text(m, 'start: ' + gs.render(e), gs.render_grammar(g), inputs, routes=('json', 'pickle'))


def shard_stress(m, items):
    for s in items:
        for label, text in ((f'token {s!r}', f"start: {s!r} 'z' | 'z' ;\n"),
                            (f'token-one-rule {s!r}', f"start: {s!r} ;\n"),
                            (f'keyword {s!r}', f"@@keyword :: {s!r}\n\nstart: 'a' ;\n") if s.strip() else (None, None),
                            (f'param {s!r}', f"start[{s!r}]: 'a' ;\n") if s.strip() else (None, None)):
            if text is None:
                continue
            check_text(m, text, text, [s, s + ' z', 'z', 'a'])
        if '`' not in s and '\n' not in s and '{' not in s and '\\' not in s and "'" not in s and '"' not in s:
            text = f"start: 'a' c:`{s}` ;\n"
            check_text(m, text, text, ['a'])


def shard_values(m, items):
    for text in items:
        check_text(m, text, text, ['a', 'a b', 'a-b', "a'b", ''])
        # raw values (not their JSON image): parameters and constant results
        try:
            model = impl.compile_text(text)
        except Exception:  # noqa
            continue
        for route, reload in (('json', via_json), ('pickle', via_pickle)):
            try:
                other = reload(model)
            except Exception:  # noqa
                continue        # reported by check_text
            a = [(r.params, sorted(r.kwparams.items(), key=repr)) for r in model.rules]
            b = [(r.params, sorted(r.kwparams.items(), key=repr)) for r in other.rules]
            if repr(a) != repr(b):
                m.violation(f'{route}/rule-parameters-differ', grammar=text, original=repr(a), reloaded=repr(b))
            for t in ('a',):
                try:
                    x, y = model.parse(t), other.parse(t)
                except Exception:  # noqa
                    continue
                m.add('evaluations')
                if repr(x) != repr(y):
                    m.violation(f'{route}/raw-result-differs', grammar=text, input=t, original=repr(x), reloaded=repr(y))


def structures():
    """Hand-built cyclic and shared structures."""
    from tatsu.contexts.ast import AST
    from tatsu.objectmodel import Node
    out = []
    shared = ['s']
    out.append(('shared-list-twice', {'a': shared, 'b': shared}, False))
    cyc = []
    cyc.append(cyc)
    out.append(('list-contains-itself', cyc, True))
    d = {}
    d['self'] = d
    out.append(('dict-contains-itself', d, True))
    a = {'name': 'a'}
    b = {'name': 'b', 'other': a}
    a['other'] = b
    out.append(('two-dicts-cycle', a, True))
    n = Node(ast={'x': 1})
    out.append(('node-in-list-twice', [n, n], False))
    out.append(('ast-with-tuple-set', AST(x=(1, 2), y={3}), False))
    deep = cur = []
    for _ in range(200):
        nxt = []
        cur.append(nxt)
        cur = nxt
    out.append(('deep-nesting', deep, False))
    return out


def check_structures(rc):
    from tatsu.util.asjson import asjson
    for name, obj, cyclic in structures():
        try:
            j = asjson(obj)
            s = json.dumps(j)
            rc.add('evaluations')
            rc.add('nontrivial')
            if cyclic and '@0x' not in s:
                rc.violation(f'asjson/cycle-not-rendered-as-reference/{name}', got=s[:200])
        except RecursionError:
            rc.violation(f'asjson/does-not-terminate/{name}')
        except Exception as e:  # noqa
            rc.violation(f'asjson/raises/{type(e).__name__}/{name}', error=str(e)[:150])


# ---------------------------------------------------------------- every small object graph

KINDS = ('dict', 'list', 'node', 'ast')


def build_graph(kinds, slots):
    """kinds[i] in KINDS; slots[i] = tuple of targets: container index or -1 (leaf)."""
    from tatsu.contexts.ast import AST
    from tatsu.objectmodel import Node
    objs = []
    for k in kinds:
        objs.append({} if k == 'dict' else [] if k == 'list' else Node() if k == 'node' else AST())
    for i, (k, ss) in enumerate(zip(kinds, slots)):
        for j, t in enumerate(ss):
            v = 7 if t < 0 else objs[t]
            if k == 'list':
                objs[i].append(v)
            elif k == 'node':
                setattr(objs[i], f's{j}', v)
            elif k == 'ast':
                objs[i]._set(f's{j}', v) if hasattr(objs[i], '_set') else objs[i].__setitem__(f's{j}', v)
            else:
                objs[i][f's{j}'] = v
    return objs


def image(kinds, slots, i, path=()):
    """Documented conversion: containers on the current path become reference strings."""
    if i < 0:
        return 7
    if i in path:
        return '<ref>'
    sub = [image(kinds, slots, t, path + (i,)) for t in slots[i]]
    k = kinds[i]
    if k == 'list':
        return sub
    d = {f's{j}': x for j, x in enumerate(sub)}
    if k == 'node':
        d = {'__class__': 'Node', **d}
    return d


def unref(j):
    if isinstance(j, str) and '@0x' in j:
        return '<ref>'
    if isinstance(j, dict):
        return {k: unref(v) for k, v in j.items() if not (k in ('ast', 'ctx', 'parseinfo') and v is None)}
    if isinstance(j, list):
        return [unref(v) for v in j]
    return j


def shard_graphs(m, items, nslots=2):
    from tatsu.util.asjson import asjson, asjsons
    for kinds in items:
        n = len(kinds)
        targets = list(range(-1, n))
        for flat in itertools.product(targets, repeat=n * nslots):
            slots = [flat[i * nslots:(i + 1) * nslots] for i in range(n)]
            # every container reachable from container 0 (others are covered by smaller graphs)
            reach, todo = {0}, [0]
            while todo:
                for t in slots[todo.pop()]:
                    if t >= 0 and t not in reach:
                        reach.add(t)
                        todo.append(t)
            if len(reach) != n:
                continue
            objs = build_graph(kinds, slots)
            want = image(kinds, slots, 0)
            m.add('evaluations')
            m.add('graphs')
            cyclic = '<ref>' in json.dumps(want)
            if cyclic:
                m.add('nontrivial')
            try:
                got = asjson(objs[0])
                json.dumps(got)
                asjsons(objs[0])
            except RecursionError:
                m.violation('asjson/does-not-terminate/' + ('cyclic' if cyclic else 'acyclic') + '-object-graph', kinds=kinds, slots=slots)
                continue
            except Exception as e:  # noqa
                m.violation(f'asjson/raises/{type(e).__name__}/object-graph', kinds=kinds, slots=slots, error=str(e)[:150])
                continue
            if unref(got) != want:
                m.violation('asjson/object-graph-image-differs', kinds=kinds, slots=slots, got=unref(got), want=want)


def check_graphs(rc):
    quick = rc.tier == 'quick'
    items = [k for n in (1, 2) for k in itertools.product(KINDS, repeat=n)]
    rc.pmap(shard_graphs, items, nslots=2)
    rc.pmap(shard_graphs, list(itertools.product(KINDS, repeat=3)), nslots=1 if quick else 2, chunk=2)
    if not quick:
        rc.pmap(shard_graphs, list(itertools.product(KINDS, repeat=4)), nslots=1, chunk=4)
    rc.coverage['object_graphs'] = rc.count('graphs')


def run(rc):
    quick = rc.tier == 'quick'
    check_graphs(rc)
    rc.pmap(shard_features, list(c13.FEATURES.items()), chunk=1, tier=rc.tier)
    exps = c01.expressions(2 if quick else 3)
    rc.pmap(shard_exprs, exps, inputs=list(gs.inputs(['a', 'b', ' '], 2)))
    stress = list(STRESS)
    if not quick:
        stress += list(c13.stress_lexemes(2))
    rc.pmap(shard_stress, stress, chunk=1)
    rc.pmap(shard_values, VALUE_GRAMMARS, chunk=1)
    check_structures(rc)
    rc.rule = (f'{len(c13.FEATURES)} feature grammars x {{JSON, pickle, Python model source}}; every C01 expression tree with <= {2 if quick else 3} nodes x {{JSON, pickle}}; '
               f'{len(stress)} stress strings (style-escape look-alikes, format specs, class markers, quotes, backslashes, literals) as token / one-rule token / keyword / '
               'rule parameter / constant x all three routes; reloaded model compared on facts and on parses; asjson + json.dumps of parse results (AST and object '
               'model) and of hand-built cyclic/shared structures; every object graph of <= 3 (thorough 4) containers of kind dict/list/Node/AST with '
               'up to 2 slots each pointing to a container or a leaf: asjson terminates, json.dumps accepts the result, and it equals the documented image '
               '(containers on the current path become Type@0x.. references, shared ones are repeated); non-trivial = accepted input / cyclic graph')
    rc.assumptions += ['equivalence of parsers is judged on the listed short inputs']


def replay(data):
    import sys
    from ..replay import replay_by_rerun
    return replay_by_rerun(sys.modules[__name__], data)
