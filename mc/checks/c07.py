"""C07 — object models mirror the AST with typed, navigable nodes.

Type-annotated grammar templates (unique class names per template) x all
inputs up to a length bound.  Reference: the same parse under a tagging
semantics that marks where typed rules returned (plain AST + type spec).
Checked: isomorphism (class name, declared bases in the MRO, attributes =
named elements with the AST's values, `ast` attribute when there are no
names, builtin conversion); children/parent closure; the three tree walkers
reach every node exactly once and dispatch on the declared base classes; the
classes of the generated model module give an isomorphic tree.
"""
from __future__ import annotations

import itertools

from .. import gramspace as gs
from .. import impl

PROPERTY = 'C07'
LEVEL = 'model_checking'

TEMPLATES = {
    'pair': ("start::{p}Pair: l:'a' r:['b'] rest:{{'c'}} ;\n", ['a', 'b', 'c', ' ']),
    'chain': ("start::{p}Doc: first:expr others:{{expr}} $ ;\n\nexpr: add | num ;\n\nadd::{p}Add::{p}Expr: l:num '+' r:expr ;\n\nnum::{p}Num::{p}Expr: v:/\\d/ ;\n",
              ['1', '2', '+', ' ']),
    'builtins': ("start::{p}Row: n:int_ s:[str_] f:[float_] ;\n\nint_::int: /\\d+/ ;\n\nstr_::str: /[a-z]+/ ;\n\nfloat_::float: /\\d+\\.\\d+/ ;\n",
                 ['1', 'a', '.', ' ']),
    'nonames': ("start::{p}Doc: items:{{item}} $ ;\n\nitem::{p}Item: 'a' 'b' | 'c' ;\n", ['a', 'b', 'c', ' ']),
    'nested': ("start::{p}Doc: rows+:row {{rows+:row}} last:[cell] $ ;\n\nrow::{p}Row: cells:{{cell}}+ ';' ;\n\ncell::{p}Cell: t:/[ab]/ ;\n", ['a', 'b', ';', ' ']),
    'join': ("start::{p}Doc: items:','%{{item}} opt:[item] $ ;\n\nitem::{p}Item::{p}Base: n:/[ab]/ ;\n", ['a', 'b', ',', ' ']),
    'override': ("start::{p}Doc: body:paren $ ;\n\nparen::{p}Paren: '(' @:inner ')' ;\n\ninner::{p}Inner: x:/[ab]/ | x:paren ;\n", ['(', ')', 'a', 'b']),
    'deep-chain': ("start::{p}Top: x:mid ;\n\nmid::{p}Mid::{p}Base::{p}Root: y:leaf ;\n\nleaf::{p}Leaf::{p}Root: /[ab]/ ;\n", ['a', 'b', ' ']),
    'untyped-in-list': ("start::{p}Doc: sections:{{section}} $ ;\n\nsection::{p}Section: 'a' entries:{{entry}} ;\n\nentry: key:item ':' value:[item] ;\n\nitem::{p}Item: v:/[b]/ ;\n",
                        ['a', 'b', ':', ' ']),
    'field-named-exp': ("start::{p}Prog: body:{{stmt}} $ ;\n\nstmt::{p}Ret: 'a' exp:[e] cond:[';' e] ;\n\ne::{p}E: v:/b/ ;\n", ['a', 'b', ';', ' ']),
    'typed-over-untyped-dict': ("start::{p}Doc: body:{{stmt}} $ ;\n\nstmt::{p}Stmt: 'a' @:assign | assign ;\n\nassign: k:/b/ ':' v:/b/ ;\n", ['a', 'b', ':', ' ']),
    # a type declared with its base in one rule and used as the base of a later rule's chain
    'type-reused-as-base': ("start::{p}Prog: body:{{stmt}} $ ;\n\nstmt: loop | assign ;\n\nassign::{p}Assign::{p}Stmt: '+' v:/b/ ;\n\nloop::{p}Loop::{p}Assign: '-' v:/b/ ;\n",
                            ['+', '-', 'b', ' ']),
    'untyped-between': ("start::{p}Doc: g:group $ ;\n\ngroup: a:item b:[item] ;\n\nitem::{p}Item: v:/[ab]/ ;\n", ['a', 'b', ' ']),
}


# Named elements whose names are also attributes or methods of Node / of the AST dict.  One template per name; whatever
# goes wrong in it is reported under one signature per name (a recorded finding for the names listed in known_findings.json).
NODE_ATTRIBUTE_NAMES = ['text', 'line', 'parent', 'ast', 'children', 'dump', 'clone', 'asjson', 'parseinfo', 'ctx', 'comments', 'endline',
                        'items', 'keys', 'values', 'update', 'get', 'type', 'pos', 'col', 'lineno', 'symbol', 'name', 'exp', 'children_list']
for _n in NODE_ATTRIBUTE_NAMES:
    TEMPLATES[f'element-name-{_n}'] = ("start::{p}S: " + _n + ":'a' other:['b'] kid:[k] $ ;\n\nk::{p}K: v:'c' ;\n", ['a', 'b', 'c', ' '])


class _Renaming:
    """Merge proxy: every violation raised while a template of the element-name family runs gets that family's signature."""

    def __init__(self, m, sig):
        self._m, self._sig = m, sig

    def violation(self, signature, **detail):
        self._m.violation(self._sig, kind=signature, **detail)

    def __getattr__(self, k):
        return getattr(self._m, k)


class TagTypes:
    """Reference semantics: marks the places where a typed rule returned."""

    def _default(self, ast, *args, **kwargs):
        if not args or not isinstance(args[0], str):
            return ast
        pi = kwargs.get('parseinfo')
        self.spans = getattr(self, 'spans', {})
        t = ('<typed>', args[0], ast)
        if pi is not None:
            self.spans[id(t)] = (pi.rule, pi.pos, pi.endpos, pi.line)
        self.keep = getattr(self, 'keep', [])
        self.keep.append(t)
        return t


BUILTINS = {'int': int, 'str': str, 'float': float, 'bool': bool}


def iso(m, where, ref, node, path='$'):
    """ref: value under TagTypes; node: value under the model builder."""
    from tatsu.objectmodel import Node
    if isinstance(ref, tuple) and len(ref) == 3 and ref[0] == '<typed>':
        spec = ref[1].split('::')
        tname, bases, inner = spec[0], spec[1:], ref[2]
        if tname in BUILTINS:
            want = BUILTINS[tname](inner)
            if node != want or type(node) is not type(want):
                m.violation(f'iso/builtin-conversion/{tname}', at=path, got=repr(node), want=repr(want), **where)
            return
        if not isinstance(node, Node) or type(node).__name__ != tname:
            m.violation('iso/not-an-instance-of-the-declared-class', at=path, got=type(node).__name__, want=tname, **where)
            return
        mro = [c.__name__ for c in type(node).__mro__]
        for b in bases:
            if b not in mro:
                m.violation('iso/declared-base-not-in-mro', at=path, cls=tname, base=b, mro=mro[:6], **where)
        if isinstance(inner, dict):
            keys = {k for k in inner if k not in ('parseinfo', '__parseinfo__')}
            pub = set(node.__pub__().keys()) if hasattr(node, '__pub__') else set()
            attrs = {k for k in keys if hasattr(node, k)}
            if attrs != keys:
                held = getattr(node, 'ast', None)
                if not attrs and isinstance(held, dict) and {k for k in held if 'parseinfo' not in k} == keys:
                    # recorded finding: a typed rule without named elements of its own whose value is the dict of an
                    # untyped rule: synthesized classes turn the dict into attributes, generated classes keep it in .ast
                    m.violation('iso/typed-rule-over-dict-value/synthesized-and-generated-classes-differ', at=path, cls=tname, **where)
                    return
                m.violation('iso/named-element-missing-as-attribute', at=path, cls=tname, missing=sorted(keys - attrs), **where)
            extra = pub - keys - {'ast'}
            if extra:
                m.violation('iso/extra-public-attribute', at=path, cls=tname, extra=sorted(extra), **where)
            for k in sorted(attrs):
                iso(m, where, inner[k], getattr(node, k), f'{path}.{k}')
        else:
            if not hasattr(node, 'ast'):
                m.violation('iso/no-ast-attribute', at=path, cls=tname, **where)
            else:
                iso(m, where, inner, node.ast, f'{path}.ast')
        return
    if isinstance(ref, dict):
        if not isinstance(node, dict) or set(k for k in ref if 'parseinfo' not in k) != set(k for k in node if 'parseinfo' not in k):
            m.violation('iso/dict-differs', at=path, got=repr(node)[:100], want=repr(ref)[:100], **where)
            return
        for k in ref:
            if 'parseinfo' not in k:
                iso(m, where, ref[k], node[k], f'{path}.{k}')
        return
    if isinstance(ref, (list, tuple)):
        if not isinstance(node, (list, tuple)) or len(ref) != len(node):
            m.violation('iso/list-differs', at=path, got=repr(node)[:100], want=repr(ref)[:100], **where)
            return
        for i, (a, b) in enumerate(zip(ref, node)):
            iso(m, where, a, b, f'{path}[{i}]')
        return
    if ref != node:
        m.violation('iso/value-differs', at=path, got=repr(node)[:100], want=repr(ref)[:100], **where)


def direct_nodes(value):
    """Nodes stored in a value directly or inside lists/dicts (not through other nodes)."""
    from tatsu.objectmodel import Node
    if isinstance(value, Node):
        yield value
    elif isinstance(value, dict):
        for v in value.values():
            yield from direct_nodes(v)
    elif isinstance(value, (list, tuple)):
        for v in value:
            yield from direct_nodes(v)


def all_nodes(root):
    from tatsu.objectmodel import Node
    out = []
    seen = set()

    def rec(n):
        if id(n) in seen:
            return
        seen.add(id(n))
        out.append(n)
        for k, v in n.__pub__().items():
            for c in direct_nodes(v):
                rec(c)
    for r in direct_nodes(root):
        rec(r)
    return out


def check_navigation(m, where, root):
    from tatsu.walkers import BreadthFirstWalker, DepthFirstWalker, NodeWalker, PostOrderDepthFirstWalker
    nodes = all_nodes(root)
    if not nodes:
        return 0
    for n in nodes:
        stored = []
        for k, v in n.__pub__().items():
            stored += list(direct_nodes(v))
        kids = list(n.children())
        if sorted(map(id, stored)) != sorted(map(id, kids)):
            m.violation('nav/children-differ-from-nodes-stored-in-attributes', cls=type(n).__name__,
                        stored=[type(x).__name__ for x in stored], children=[type(x).__name__ for x in kids], **where)
        for c in kids:
            if c.parent is not n:
                m.violation('nav/child-does-not-name-its-parent', cls=type(c).__name__, parent=type(c.parent).__name__ if c.parent else None,
                            holder=type(n).__name__, **where)
    tops = list(direct_nodes(root))
    if len(tops) == 1:
        top = tops[0]
        reach = all_nodes(top)
        for wcls in (DepthFirstWalker, BreadthFirstWalker, PostOrderDepthFirstWalker):
            visited = []

            class W(wcls):
                def walk_Node(self, node, *a, **k):
                    visited.append(id(node))
                    return node

            W().walk(top)
            if sorted(visited) != sorted(map(id, reach)):
                m.violation(f'nav/walker-visit-set-differs/{wcls.__name__}', visited=len(visited), distinct=len(set(visited)), nodes=len(reach), **where)
            if len(reach) < 2:
                continue
            # one walker object used again after a walk that did not finish (a handler raised; an iteration was given up)
            state = {'raise_at': 2, 'seen': 0}

            class Stop(Exception):
                pass

            class W2(wcls):
                def walk_Node(self, node, *a, **k):
                    state['seen'] += 1
                    if state['seen'] == state['raise_at']:
                        raise Stop()
                    visited.append(id(node))
                    return node

            w = W2()
            try:
                w.walk(top)
            except Stop:
                pass
            if hasattr(w, 'iter_breadthfirst'):
                it = w.iter_breadthfirst(top)
                try:
                    next(it)
                except Exception:  # noqa
                    pass
                finally:
                    it.close()
            state['raise_at'] = -1
            del visited[:]
            try:
                w.walk(top)
                again = sorted(visited)
            except Exception as e:  # noqa
                again = f'{type(e).__name__}: {e}'[:120]
            if again != sorted(map(id, reach)):
                m.violation(f'nav/walker-object-reused-after-an-unfinished-walk/{wcls.__name__}',
                            got=again if isinstance(again, str) else len(again), nodes=len(reach), **where)
    return len(nodes)


def check_dispatch(m, where, root, prefix):
    """Walkers dispatch on declared base classes: walk_<Base> for every node deriving from it."""
    from tatsu.walkers import BreadthFirstWalker, DepthFirstWalker
    tops = list(direct_nodes(root))
    if len(tops) != 1:
        return
    bases = [prefix + b for b in ('Expr', 'Base', 'Root')]
    for wcls in (DepthFirstWalker, BreadthFirstWalker):
        log = []

        def make(b):
            def walk_b(self, node, *a, **k):
                log.append((b, type(node).__name__, [c.__name__ for c in type(node).__mro__]))
                return node
            return walk_b

        ns = {f'walk_{b}': make(b) for b in bases}

        def walk_Node(self, node, *a, **k):
            log.append(('Node', type(node).__name__, [c.__name__ for c in type(node).__mro__]))
            return node
        # histories: the specific walker class is defined and used at once; or it derives from a generic walker class
        # that has already walked the same tree (walker look-ups are remembered per class)
        for history in ('fresh', 'generic-parent-walked-first'):
            if history == 'fresh':
                W = type('W', (wcls,), dict(ns, walk_Node=walk_Node))
            else:
                P = type('P', (wcls,), {'walk_Node': walk_Node})
                P().walk(tops[0])
                log.clear()
                W = type('W', (P,), dict(ns))
            W().walk(tops[0])
            for used, cname, mro in log:
                want = next((b for b in mro if b in bases), 'Node')
                # the most specific declared base in MRO order wins
                if used != want:
                    m.violation(f'nav/walker-dispatch/{wcls.__name__}/{history}', node=cname, used=f'walk_{used}', want=f'walk_{want}', **where)
            log.clear()


def check_parseinfo(m, where, model, text):
    """With parseinfo on, every model node carries the rule that returned it and the exact span."""
    from .c12b import line_of
    typed_rules = {}
    for r in model.rules:
        if r.params and isinstance(r.params[0], str):
            typed_rules.setdefault(r.params[0].split('::')[0], set()).add(r.name)
    # an untyped rule whose alternative is a bare call returns the callee's node unchanged: it, too,
    # is "a rule that returned it"
    from tatsu import peg
    changed = True
    while changed:
        changed = False
        for r in model.rules:
            if r.params:
                continue
            opts = r.exp.options if isinstance(r.exp, peg.Choice) else [r.exp]
            for o in opts:
                e = o.exp if isinstance(o, peg.Option) else o
                while isinstance(e, peg.Group):
                    e = e.exp
                if isinstance(e, peg.Call):
                    for cname, rules in typed_rules.items():
                        if e.name in rules and r.name not in rules:
                            rules.add(r.name)
                            changed = True
    try:
        built = model.parse(text, asmodel=True, parseinfo=True)
    except Exception as e:  # noqa
        m.violation(f'parseinfo/model-building-raises/{type(e).__name__}', error=str(e)[:200], **where)
        return
    for n in all_nodes(built):
        pi = n.parseinfo
        cname = type(n).__name__
        if pi is None:
            m.violation('parseinfo/node-without-parseinfo', cls=cname, **where)
            continue
        if pi.rule not in typed_rules.get(cname, ()):
            m.violation('parseinfo/rule-is-not-a-rule-of-this-class', cls=cname, rule=repr(pi.rule)[:60], want=sorted(typed_rules.get(cname, ())), **where)
        seg = text[pi.pos:pi.endpos]
        if not (0 <= pi.pos <= pi.endpos <= len(text)) or (seg and seg[0].isspace()):
            m.violation('parseinfo/span-not-the-text-consumed-after-leading-whitespace', cls=cname, span=[pi.pos, pi.endpos], segment=seg, **where)
        if pi.line != line_of(text, pi.pos):
            m.violation('parseinfo/start-line-differs', cls=cname, line=pi.line, want=line_of(text, pi.pos), **where)
        if n.text is not None and n.text != seg:
            m.violation('parseinfo/node-text-differs-from-span', cls=cname, got=n.text, want=seg, **where)


def load_generated_model(gtext, name):
    import tatsu
    import sys
    import types
    src = tatsu.to_python_model(gtext, name=name)
    mod = types.ModuleType(f'genmodel_{name}')
    sys.modules[mod.__name__] = mod      # dataclasses resolve string annotations through sys.modules
    exec(compile(src, f'<model {name}>', 'exec'), mod.__dict__)
    return mod.__dict__[f'{name}ModelBuilderSemantics']


def shard(m, items, maxlen=4):
    import tatsu
    from tatsu.exceptions import ParseException
    real_m = m
    for tname, variant in items:
        tpl, alpha = TEMPLATES[tname]
        m = _Renaming(real_m, 'iso/element-name-collides-with-node-attribute/' + tname[len('element-name-'):]) if tname.startswith('element-name-') else real_m
        prefix = f'{tname.replace("-", "").title()}{variant}'
        gtext = tpl.format(p=prefix)
        where0 = dict(grammar=gtext)
        try:
            model = impl.compile_text(gtext)
            gensem = load_generated_model(gtext, prefix + 'M')
        except Exception as e:  # noqa
            m.violation(f'compile-or-modelgen-failed/{type(e).__name__}', error=str(e)[:300], **where0)
            continue
        m.add('programs')
        impl.rule_reach(m, 'template-rules', tname, model, list(gs.inputs(alpha, maxlen)))
        for text in gs.inputs(alpha, maxlen):
            where = dict(grammar=gtext, input=text)
            try:
                ref = model.parse(text, semantics=TagTypes())
            except ParseException:
                ref = None
            try:
                built = model.parse(text, asmodel=True)
                ok = True
            except ParseException:
                ok = False
            except Exception as e:  # noqa
                m.violation(f'model-building-raises/{type(e).__name__}', error=str(e)[:200], **where)
                continue
            m.add('evaluations')
            m.add('transitions')
            m.add('states')
            if (ref is None) != (not ok):
                m.violation('accept-differs-between-ast-and-model-building', **where)
                continue
            if not ok:
                continue
            try:
                iso(m, where, ref, built)
                check_parseinfo(m, where, model, text)
                n = check_navigation(m, where, built)
                if n > 1:
                    m.add('nontrivial')
                check_dispatch(m, where, built, prefix)
            except Exception as e:  # noqa
                if not tname.startswith('element-name-'):
                    raise
                # the element's value sits where a method of the node was: children(), parseinfo, ... cannot be used
                m.violation(f'node-interface-unusable/{type(e).__name__}', error=str(e)[:200], **where)
                continue
            # generated model module
            try:
                gbuilt = model.parse(text, semantics=gensem())
            except Exception as e:  # noqa
                m.violation(f'generated-model-raises/{type(e).__name__}', error=str(e)[:200], **where)
                continue
            m.add('evaluations')
            try:
                iso(m, dict(where, via='generated-model-module'), ref, gbuilt)
                check_navigation(m, dict(where, via='generated-model-module'), gbuilt)
            except Exception as e:  # noqa
                if not tname.startswith('element-name-'):
                    raise
                m.violation(f'node-interface-unusable/{type(e).__name__}', error=str(e)[:200], via='generated-model-module', **where)
        m.sample({'template': tname, 'grammar': gtext})


def run(rc):
    quick = rc.tier == 'quick'
    items = [(t, v) for t in TEMPLATES for v in ('A',)]
    rc.pmap(shard, items, chunk=1, maxlen=5 if quick else 7)
    c = rc.total.counts
    rc.rule = (f'{len(TEMPLATES)} type-annotated grammar templates (single type, Derived::Base chains up to 3, builtin int/str/float, rules without names, '
               'nodes in closures/optionals/joins/lists, overrides, untyped rules between typed ones) with class names unique per template x all inputs '
               f'up to length {5 if quick else 7}; model-building parse vs the same parse under a semantics that tags typed rules; synthesized classes and '
               'the classes of the generated model module; non-trivial = accepted input whose tree has more than one node')
    rc.coverage.update({'states': c.get('states', 0), 'transitions': c.get('transitions', 0),
                        'traces_validated_against_impl': c.get('states', 0), 'programs': c.get('programs', 0)})
    rc.assumptions += ['class names are unique per template: the process-wide registry of synthesized classes (a recorded finding under C10) is kept out of this check',
                       'builtin conversion is claimed for int, float, str, bool']


def replay(data):
    import sys
    from ..replay import replay_by_rerun
    return replay_by_rerun(sys.modules[__name__], data)
