"""C18 — the parallel processing loop yields exactly one result per payload.

The real parproc -> executor_pmap -> taskproc run in-process over a
deterministic executor (DetExecutor) and a controlled as_completed; every
"which running future completes now" / "which finished future is yielded
next" / "do more futures complete before the next yield" is a recorded
choice, and the whole choice tree is explored (E3).
"""
from __future__ import annotations

import itertools
import sys
import threading
from collections import Counter
from concurrent.futures import Future

from ..explore import Chooser, check_deterministic, explore

PROPERTY = 'C18'
LEVEL = 'model_checking'


class Boom(Exception):
    pass


class Bang(KeyError):
    pass


class Payload:
    """Implements the payload protocol (path, payload, raises())."""

    def __init__(self, idx: int, mode: str):
        self.idx = idx
        self.mode = mode  # 'ok' | 'boom-any' | 'boom-listed' | 'bang-base'
        self.path = f'p{idx}'
        self.payload = idx

    def raises(self):
        if self.mode == 'boom-listed':
            return (Boom,)
        if self.mode == 'bang-base':
            return (LookupError, ValueError)  # Bang is a KeyError -> LookupError
        return ()

    def __repr__(self):
        return f'P{self.idx}:{self.mode}'


CALLS: Counter = Counter()      # how often the function ran for each payload in the current execution


def work(payload, *args, **kwargs):
    CALLS[payload.idx] += 1
    if payload.mode == 'type-error':
        raise TypeError(payload.idx)            # the class the loop's compatibility retry for *visual* payloads looks at
    if payload.mode == 'interrupt':
        raise KeyboardInterrupt()
    if payload.mode in ('boom-any', 'boom-listed'):
        raise Boom(payload.idx)
    if payload.mode == 'bang-base':
        raise Bang(payload.idx)
    if payload.mode == 'eintr':
        raise InterruptedError(payload.idx)     # an ordinary captured exception that looks like the loop's "stopped" marker
    return ('done', payload.idx, args, tuple(sorted(kwargs.items())))


class DetExecutor:
    """Stands in for ProcessPoolExecutor: submit() only records; completion is
    driven by the controlled as_completed through the chooser."""

    current: 'DetExecutor | None' = None

    def __init__(self, max_workers=None, **_kw):
        self.max_workers = max_workers or 1
        self.submitted: list[tuple[Future, object, tuple, dict]] = []
        self.done: set[int] = set()  # indices into submitted
        self.shutdown_called = False
        self.max_inflight = 0
        DetExecutor.current = self

    def __enter__(self):
        return self

    def __exit__(self, *exc):
        self.shutdown(wait=True)
        return False

    def submit(self, fn, *args, **kwargs):
        assert not self.shutdown_called, 'submit after shutdown'
        f = Future()
        self.submitted.append((f, fn, args, kwargs))
        inflight = len(self.submitted) - len(self.done)
        self.max_inflight = max(self.max_inflight, inflight)
        return f

    def running(self) -> list[int]:
        """Indices of the futures currently on a worker: the max_workers
        earliest unfinished submissions."""
        out = []
        for i in range(len(self.submitted)):
            if i not in self.done:
                out.append(i)
                if len(out) >= self.max_workers:
                    break
        return out

    def complete(self, i: int) -> None:
        f, fn, args, kwargs = self.submitted[i]
        assert i not in self.done
        f.set_running_or_notify_cancel()
        try:
            r = fn(*args, **kwargs)
        except BaseException as e:  # what a pool does: ship the exception
            f.set_exception(e)
        else:
            f.set_result(r)
        self.done.add(i)

    def shutdown(self, wait=True, cancel_futures=False):
        self.shutdown_called = True
        if cancel_futures:
            for i, (f, *_r) in enumerate(self.submitted):
                if i not in self.done:
                    f.cancel()
                    self.done.add(i)
        elif wait:
            for i in range(len(self.submitted)):
                if i not in self.done:
                    self.complete(i)


def make_as_completed(chooser: Chooser, stats: dict):
    def as_completed(fs, timeout=None):
        ex = DetExecutor.current
        pending = set(fs)  # the stdlib contract: a snapshot
        index = {id(f): i for i, (f, *_r) in enumerate(ex.submitted)}
        stats['snapshots'] = stats.get('snapshots', 0) + 1
        while pending:
            finished = sorted((index[id(f)] for f in pending if f.done()))
            running = ex.running()
            # options: yield one of the finished futures of this snapshot, or let
            # one running future (inside or outside the snapshot) complete first.
            opts = [('yield', i) for i in finished] + [('complete', i) for i in running]
            if not finished:
                # nothing to yield: some running future must complete
                opts = [('complete', i) for i in running]
                assert opts, 'deadlock: pending futures but nothing running'
            k = chooser.pick(len(opts), 'as_completed')
            act, i = opts[k]
            if act == 'complete':
                ex.complete(i)
                if ex.submitted[i][0] not in pending:
                    stats['completed_outside_snapshot'] = stats.get('completed_outside_snapshot', 0) + 1
                continue
            f = ex.submitted[i][0]
            pending.discard(f)
            yield f
    return as_completed


class FakeMP:
    """multiprocessing stand-in for parproc.parproc: Manager().Event() without
    a manager process."""

    class _Mgr:
        def Event(self):
            return threading.Event()

    def Manager(self):
        return FakeMP._Mgr()

    def cpu_count(self):
        return 2


class DetThreadExecutor(DetExecutor):
    """Stands in for ThreadPoolExecutor on the route taken when the interpreter has free threading."""


def expected(modes):
    """What calling the function directly on each payload gives: the absolute oracle (one call each)."""
    exc = {'boom-any': 'Boom', 'boom-listed': 'Boom', 'bang-base': 'Bang', 'eintr': 'InterruptedError', 'type-error': 'TypeError'}
    return Counter((i, ('done', i, ('x',), (('k', 1),)) if mo == 'ok' else None, exc.get(mo)) for i, mo in enumerate(modes))


def run_parproc(chooser, modes, max_workers, parallel, stats=None, route='process'):
    """One execution of the real parproc under the chooser.  Returns the
    observation: list of (payload idx, outcome, exception type) in yield
    order, or ('raised', type) if the generator raised."""
    import concurrent.futures as cf

    pp = sys.modules['tatsu.parproc.parproc']
    pm = sys.modules['tatsu.parproc.pmap']
    stats = stats if stats is not None else {}
    payloads = [Payload(i, m) for i, m in enumerate(modes)]
    saved = (cf.ProcessPoolExecutor, pm.as_completed, pp.multiprocessing, cf.ThreadPoolExecutor, pm.HAS_MULTITHREADING_SUPPORT, pp.HAS_MULTITHREADING_SUPPORT)
    if route == 'thread':
        cf.ThreadPoolExecutor = DetThreadExecutor
        pm.HAS_MULTITHREADING_SUPPORT = pp.HAS_MULTITHREADING_SUPPORT = True
    else:
        cf.ProcessPoolExecutor = DetExecutor
    pm.as_completed = make_as_completed(chooser, stats)
    pp.multiprocessing = FakeMP()
    DetExecutor.current = None
    CALLS.clear()
    out = []
    try:
        try:
            for r in pp.parproc(work, payloads, 'x', parallel=parallel, max_workers=max_workers, k=1):
                out.append((r.payload.idx, r.outcome if r.exception is None else None,
                            type(r.exception).__name__ if r.exception is not None else None))
        except BaseException as e:  # noqa
            out.append(('raised', type(e).__name__))
    finally:
        cf.ProcessPoolExecutor, pm.as_completed, pp.multiprocessing, cf.ThreadPoolExecutor, pm.HAS_MULTITHREADING_SUPPORT, pp.HAS_MULTITHREADING_SUPPORT = saved
    for i, k in sorted(CALLS.items()):
        if k != 1:
            out.append(('calls', i, k))          # the function runs once per payload
    ex = DetExecutor.current
    if ex is not None:
        stats['max_inflight'] = max(stats.get('max_inflight', 0), ex.max_inflight)
    return tuple(out)


def configs(tier):
    nmax = 4 if tier == "quick" else 6
    wmax = 2 if tier == 'quick' else 3
    for n in range(0, nmax + 1):
        # every subset of payloads raising a captured exception; the raising
        # mode cycles over the three capture forms so each form meets each slot
        for bits in itertools.product([0, 1], repeat=n):
            for variant in range(5 if n and any(bits) else 1):
                forms = ['boom-any', 'boom-listed', 'bang-base', 'eintr', 'type-error']
                modes = tuple('ok' if not b else forms[(i + variant) % 5] for i, b in enumerate(bits))
                for w in range(1, wmax + 1):
                    # full choice tree up to 5 payloads; 6 payloads deviation-bounded
                    yield modes, w, (None if n <= 5 else 2), 'process'
                    if n <= (3 if tier == 'quick' else 4):
                        # the thread-pool route (free-threaded interpreters): everything is submitted at once
                        yield modes, w, None, 'thread'


def explore_config(m, cfg, bound):
    import tatsu.parproc  # noqa: F401  (ensures submodules are in sys.modules)

    modes, w, bound, route = cfg
    if bound is not None:
        m.note('bounded', (len(modes), bound))
    n = len(modes)
    m.note('routes', route)
    seq = run_parproc(Chooser(), modes, w, parallel=False, route=route)
    want = Counter(seq)
    if len(seq) != n or sorted(str(x[0]) for x in seq) != sorted(str(i) for i in range(n)):
        m.violation('sequential-not-one-per-payload', modes=modes, got=seq)
    if want != expected(modes):
        m.violation('sequential-differs-from-calling-the-function-once-per-payload', modes=modes, got=seq, want=sorted(expected(modes), key=repr))
    stats: dict = {}

    def body(ch):
        return run_parproc(ch, modes, w, parallel=True, stats=stats, route=route)

    check_deterministic(body)
    orders = set()
    runs = 0
    for choices, ch, obs in explore(body, bound=bound):
        runs += 1
        m.add('evaluations')
        m.add('transitions', len(choices))
        if ch.deviations:
            m.add('nontrivial')
        orders.add(obs)
        got = Counter(obs)
        if got != want:
            idxs = [x[0] for x in obs]
            if any(x[0] == 'raised' for x in obs):
                sig = 'parallel-raised'
            elif len(idxs) != len(set(idxs)):
                sig = 'duplicate-result'
            elif len(idxs) < n:
                sig = 'lost-result'
            else:
                sig = 'different-multiset'
            m.violation(f'{sig}' + ('/thread-route' if route == 'thread' else ''), modes=modes, max_workers=w, route=route, choices=choices, got=obs, sequential=seq)
    m.add('configs')
    m.add('states', len(orders))
    m.note('yield_orders', (modes, w, len(orders)))
    m.add('distinct_yield_orders', len(orders))
    m.add('completed_outside_snapshot', stats.get('completed_outside_snapshot', 0))
    m.add('snapshots', stats.get('snapshots', 0))
    m.note('max_inflight', stats.get('max_inflight', 0))
    if n >= 3 and w == 2 and any(b != 'ok' for b in modes):
        m.sample({'payload_modes': modes, 'max_workers': w, 'schedules': runs, 'distinct_yield_orders': len(orders),
                  'one_order': [list(x) for x in sorted(orders, key=repr)[-1]]})
    if n >= 2 and len(orders) < 2 and w >= 1:
        # several schedules but one outcome means nothing collided
        m.add('single_outcome_configs')


def shard(m, items, bound=None):
    for cfg in items:
        explore_config(m, cfg, bound)


def real_pool_conformance(rc):
    """Binds the fake executor to reality: the same bodies through real
    ThreadPool-backed executor_pmap; decides nothing beyond 'is one of the
    explored outcomes as a multiset'."""
    import concurrent.futures as cf

    import tatsu.parproc  # noqa
    pp = sys.modules['tatsu.parproc.parproc']
    modes = ('ok', 'boom-any', 'ok', 'bang-base')
    payloads = [Payload(i, mo) for i, mo in enumerate(modes)]
    saved = (cf.ProcessPoolExecutor, pp.multiprocessing)
    cf.ProcessPoolExecutor = cf.ThreadPoolExecutor  # same executor contract, no pickling of local classes
    pp.multiprocessing = FakeMP()
    try:
        got = [(r.payload.idx, type(r.exception).__name__ if r.exception else None)
               for r in pp.parproc(work, payloads, 'x', parallel=True, max_workers=2, k=1)]
    finally:
        cf.ProcessPoolExecutor, pp.multiprocessing = saved
    want = sorted((i, None if mo == 'ok' else ('Boom' if mo.startswith('boom') else 'Bang')) for i, mo in enumerate(modes))
    rc.coverage['real_executor_conformance'] = {'got': sorted(got), 'agrees': sorted(got) == want}
    if sorted(got) != want:
        rc.violation('real-executor-differs', got=got, want=want)


def interrupted_histories(rc):
    """Calls of the loop are independent: after a run that was interrupted (a task raised KeyboardInterrupt, which
    sets that run's stop flag), every later run yields what it yields in a process without that history."""
    import tatsu.parproc  # noqa: F401
    firsts = []
    for n in (1, 2, 3):
        for k in range(n):
            modes = tuple('interrupt' if i == k else 'ok' for i in range(n))
            for par in (False, True):
                firsts.append((modes, par))
    seconds = [(('ok',), False), (('ok', 'ok'), False), (('ok', 'boom-any', 'ok'), False), (('ok', 'ok'), True), (('ok', 'boom-listed', 'ok'), True)]
    n = 0
    for modes2, par2 in seconds:
        alone = set()
        for _c, _ch, obs in explore(lambda ch: run_parproc(ch, modes2, 2, parallel=par2), bound=None):
            alone.add(Counter(obs).__repr__())
        for modes1, par1 in firsts:
            import contextlib
            import io
            with contextlib.redirect_stdout(io.StringIO()), contextlib.redirect_stderr(io.StringIO()):
                first = run_parproc(Chooser(), modes1, 2, parallel=par1)
            for _c, _ch, obs in explore(lambda ch: run_parproc(ch, modes2, 2, parallel=par2), bound=None):
                n += 1
                rc.add('evaluations')
                rc.add('nontrivial')
                if Counter(obs).__repr__() not in alone:
                    rc.violation('history/run-after-an-interrupted-run-differs', first=[modes1, 'parallel' if par1 else 'sequential', first],
                                 second=[modes2, 'parallel' if par2 else 'sequential'], got=obs, alone=sorted(alone)[:3])
                    break
    rc.coverage['interrupted_histories'] = n


def run(rc):
    interrupted_histories(rc)
    cfgs = list(configs(rc.tier))
    rc.rule = ('every payload list of length 0..{n}, every subset raising a captured exception (raises() empty / listing the class / '
               'listing a base class / an InterruptedError raised by the task itself), max_workers 1..{w}; for each, the complete choice tree of the deterministic executor '
               '(which running future completes, which finished future is yielded, completions between yields, inside or outside the '
               'as_completed snapshot); plus two-run histories: a run interrupted by KeyboardInterrupt at each position (sequential, single task, parallel) '
               'followed by each of five ordinary runs under all their schedules; non-trivial = schedule with at least one non-default choice').format(
        n='4' if rc.tier == 'quick' else '5 (6 with <=2 deviations)', w=2 if rc.tier == 'quick' else 3)
    # big configs first so the pool balances
    cfgs.sort(key=lambda c: -(len(c[0]) * 10 + c[1]) if c[2] is None else 0)
    rc.coverage['routes'] = ['process-pool (bounded window)', 'thread-pool (all submitted at once)']
    rc.pmap(shard, cfgs, chunk=1, bound=None)
    real_pool_conformance(rc)
    for n, b in sorted(rc.total.sets.get('bounded', ())):
        rc.cap(f'{n}-payload configurations explored completely only up to {b} non-default scheduler choices; all smaller configurations: full choice tree')
    c = rc.total.counts
    rc.coverage.update({
        'states': c.get('states', 0),
        'transitions': c.get('transitions', 0),
        'traces_validated_against_impl': c.get('evaluations', 0),
        'schedules': c.get('evaluations', 0),
        'configs': c.get('configs', 0),
        'explanation': 'states = distinct (config, yield order) outcomes observed; transitions = scheduler choices executed; '
                       'every schedule is an execution of the real parproc/executor_pmap/taskproc, so all traces are validated against the implementation',
    })
    if c.get('completed_outside_snapshot', 0) == 0:
        rc.violation('vacuous: no future ever completed outside the current as_completed snapshot')
    rc.assumptions += [
        'executor contract: only the max_workers earliest unfinished submissions can complete; as_completed snapshots its argument',
        'captured exceptions exclude RuntimeError (taskproc re-raises RuntimeError by design) and KeyboardInterrupt',
        'within one run the stop event is never set; KeyboardInterrupt is injected only in the first run of the two-run histories',
    ]


def replay(data):
    import tatsu.parproc  # noqa
    d = data['detail']
    if 'modes' not in d or 'choices' not in d:
        from ..replay import replay_by_rerun
        return replay_by_rerun(sys.modules[__name__], data)
    modes = tuple(d['modes'])
    w = d.get('max_workers', 1)
    route = d.get('route', 'process')
    seq = run_parproc(Chooser(), modes, w, parallel=False, route=route)
    obs = run_parproc(Chooser(tuple(d.get('choices', ()))), modes, w, parallel=True, route=route)
    print('sequential:', seq)
    print('parallel  :', obs)
    bad = Counter(seq) != Counter(obs) or Counter(seq) != expected(modes)
    if bad:
        print(f'VIOLATION property=C18 replay={data.get("signature")}')
    return 1 if bad else 0
