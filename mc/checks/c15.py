"""C15 — the shipped bootstrap parser agrees with the shipped TatSu grammar.

Four readers of grammar text must agree on accept/reject and on the Grammar
model they build:
  P1 boot/bootstrap.py         (checked-in generated parser)
  P2 boot/bootparser.py        (checked-in grammar model GRAMMAR_MODEL)
  P3 tatsu.compile(_tatsu.ebnf) (model compiled now from the grammar file)
  P4 pythongen(P3) exec'd       (bootstrap parser regenerated now)
Inputs: a corpus of grammar texts that exercises every rule of _tatsu.ebnf in
every alternative spelling (coverage measured; a rule never hit fails the run
as vacuous) plus their complete single-edit neighbourhoods.
"""
from __future__ import annotations

import contextlib
import io
import json
from pathlib import Path

from . import c08, c13

PROPERTY = 'C15'
LEVEL = 'model_checking'

SYNTAX = {
    'defs': "a = 'x' ;\n\nb : 'y' ;\n\nc ::= 'z' ;\n\nd := 'w' ;\n",
    'ends': "a: 'x'\n\nb: 'y';\nc: 'z'\n  'cont'\nd: 'w'\n",
    'params-brackets': "a[T]: 'x' ;\n\nb(T, 1): 'y' ;\n\nc[k=v, n=2]: 'z' ;\n\nd::T::B: 'w' ;\n\ne[T, k=1]: 'v' ;\n\nf(k='s'): 'u' ;\n",
    'strings': "a: \"dq\" 'sq' r'raw\\d' r\"raw2\" '''\n  multi\n  ''' \"\"\"x\"\"\" ;\n",
    'patterns': "a: /re/ ?\"re2\" ?'re3' ?/old/? ;\n",
    'patterns-concat': "a: /a/ + /b/ ;\n",
    'patterns-multiline': "b: /(?x)\n  a\n  b/ ;\n",
    'ebnf-postfix': "a: 'x'? 'y'* 'z'+ ('w')? {'v'}* {'u'}+ {'t'}- ;\n",
    'joins': "a: ','%{'x'}+ ','%{'x'}* ','%{'x'} ','.{'x'}+ ','.{'x'}- ','.{'x'} ;\n\nb: '+'<{'y'}+ ;\n\nc: '+'>{'y'}+ ;\n",
    'names': "a: n:'x' m='y' l+:'z' k+='w' @:'v' ='u' @+:'t' +='s' ;\n",
    'groups': "a: ('x' | 'y') (?: 'z') ['w'] {} () !() ~ >> &'v' !'u' ->'t' $ $-> /./ ;\n",
    'calls-includes': "a: 'x' ;\n\nb: a >a ;\n\n@override\na: 'y' ;\n\nc < b: 'z' ;\n",
    'decorators': "@name\na: /\\w+/ ;\n\n@nomemo\n@nostak\nb: 'x' ;\n\n@isname\nc: /\\w+/ ;\n",
    'directives': ("@@grammar :: G\n@@whitespace :: /[ ]+/\n@@nameguard :: False\n@@namechars :: '-'\n@@ignorecase :: True\n@@left_recursion :: False\n"
                   "@@parseinfo :: True\n@@comments :: /\\(\\*.*?\\*\\)/\n@@eol_comments :: /#.*$/\n@@keyword :: if else 'end' \"fi\"\n@@keyword :: None True 1\n\na: 'x' ;\n"),
    # a keyword list without parentheses ends where a rule begins, whichever way the rule is written
    'keywords-then-equals-rule': "@@keyword :: if else\nstart = b $ ;\n\nb = 'y' ;\n",
    'keywords-then-each-definition': "@@keyword :: if\na = 'x' ;\n@@keyword :: else\nb : 'y' ;\n@@keyword :: end\nc ::= 'z' ;\n@@keyword :: fi\nd := 'w' ;\n@@keyword :: x\ng::T = 't' ;\n",
    'keywords-parenthesised': "@@keyword :: (if else 'end')\n@@keyword :: ( \"fi\" )\n\na[T]: 'x' ;\n",
    # line ends other than LF, with rules ended by blank lines, dedents and semicolons
    'crlf-blank-ends': "a: 'x'\r\n\r\nb: 'y'\r\n\r\nc: a b\r\n",
    'cr-blank-ends': "a: 'x'\r\rb: 'y'\r\rc: a b\r",
    'crlf-semicolons': "a: 'x' ;\r\nb: 'y' ;\r\nc: a\r\n   b ;\r\n",
    'mixed-line-ends': "a: 'x'\n\r\nb: 'y'\r\n\nc: a b \t\r\n \r\nd: c\n",
    'directives2': "@@whitespace :: None\n@@nameguard :: True\n\na: 'x' ;\n",
    'constants': "a: `1` `'s'` `x{y}` ```multi\nline``` ^`alert` ^^^`three` `True` ;\n",
    'meta': "a: @int @uint @float @bool @name ;\n",
    'meta-call': "a: @int b @name b @bool ;\n\nb: 'x' ;\n",
    'comments': "(* pascal *)\n/* c style */\n# eol\n// eol2\na: 'x' (* inner *) 'y' # trailing\n ;\n",
    'choices': "a:\n  | 'x'\n  | 'y' 'z'\n  | ()\n;\n",
    'choices-leading-bar': "b: | 'x' | 'y' ;\n",
    'numbers': "a[1, 2.5, -3]: 'x' ;\n\nb[k=true, j=null, i=false]: 'y' ;\n\nc[T, +1, +1.5]: 'z' ;\n",
    'numbers-hex': "a[0x1F]: 'x' ;\n",
    'params-path': "a::T: 'x' ;\n\nb[A::B]: 'y' ;\n",
    # words that begin like a literal of the grammar language (the word boundary decides)
    'params-literal-prefix': "a::TrueLiteral: 'x' ;\n\nb[NoneType]: 'y' ;\n\nc[kind=nullable, other=falsey]: 'z' ;\n\nd[Trueish, nullx, Falsex]: 'w' ;\n",
    'names-literal-prefix': "@@keyword :: Nonesuch trueish\n\nNoneRule: 'x' ;\n\ntruerule: NoneRule nullrule:NoneRule ;\n",
    'directive-literal-prefix': "@@grammar :: NoneSuch\n@@whitespace :: /x/\n@@nameguard :: Truex\n\na: 'x' ;\n",
}
# element spellings written next to each other without blanks: where one lexeme ends and the next begins is decided
# by guards and word boundaries inside single rules of the grammar — the place where a stale reader drifts
ELEMENTS = ["'x'", '"x"', '/x/', 'b', 'b2', '(b)', '[b]', '{b}', 'n:', 'n=', 'n+:', 'n+=', '@:', '@+:', '=', '+=', '+', '*', '?', '-', '~', '$', '&', '!',
            '@int', '@name', '@bool', '`1`', '()', '>b', '->', '>>', '%', '.', '|', '^`x`', ',', 'r', "r'x'", '?', "?'x'", '1', ':', '::', '<', '@']


def juxtapositions(k):
    import itertools
    for n in range(1, k + 1):
        for t in itertools.product(ELEMENTS, repeat=n):
            yield "a: " + ''.join(t) + " ;\n\nb: 'y' ;\n\nb2: 'z' ;\n"


def postfix_bindings():
    """A repeated or bracketed element, each postfix spelling, and each prefix that may follow it, written without blanks
    (`{b}-=b`, `','.{b}+@:b`, `(b)?n:'x'`): four lexemes, beyond the reach of the plain juxtapositions."""
    heads = ['{b}', "','.{b}", "','%{b}", "','<{b}", "','>{b}", '(b)', 'b']
    posts = ['', '+', '-', '*', '?']
    binds = ['=', '+=', '@:', '@+:', 'n:', 'n=', 'n+:', 'n+=', '~', '|', '&', '->']
    tails = ['b', "'x'", '`1`']
    for h in heads:
        for p in posts:
            for b in binds:
                for t in tails:
                    yield "a: 'y' " + h + p + b + t + " ;\n\nb: 'y' ;\n"


INVALID = {
    'unclosed': "a: ('x' ;\n",
    'bad-regex': "a: /(/ ;\n",
    'empty-token': "a: '' ;\n",
    'dup-rule': "a: 'x' ;\n\na: 'y' ;\n",
    'unknown-include': "a: >zz ;\n",
    'unknown-base': "a < zz: 'x' ;\n",
    'bad-directive': "@@nosuch :: 1\n\na: 'x' ;\n",
    'unknown-rule': "a: b ;\n",
    'lr-off': "@@left_recursion :: False\n\na: a 'x' | 'y' ;\n",
    'bare-at': "a: @'x' ;\n",
    'nothing': "",
    'only-comment': "# nothing\n",
}


def readers():
    """-> dict name -> callable(text) -> ('ok', facts-json) | ('fail', kind)"""
    import tatsu
    from tatsu.boot.bootparser import GRAMMAR_MODEL
    from tatsu.boot.bootstrap import TatSuBootstrapParser as P1cls
    from tatsu.config import ParserConfig
    from tatsu.exceptions import ParseException
    from tatsu.ngcodegen.ngparser_gen import pythongen
    from tatsu.peg import Grammar, GrammarSemantics
    from .. import impl

    ebnf = (Path(tatsu.__file__).parent / '_tatsu.ebnf').read_text()
    impl.clear_compile_cache()
    p3model = tatsu.compile(ebnf, name='TatSuBootstrap')
    src = pythongen(p3model, parser_name='TatSuBootstrap')
    ns: dict = {'__name__': 'regenerated_bootstrap'}
    exec(compile(src, '<regenerated bootstrap>', 'exec'), ns)
    P4cls = ns['TatSuBootstrapParser']

    def outcome(fn):
        def run(text, sem_factory=None):
            sem = (sem_factory or (lambda: GrammarSemantics(name='G')))()
            try:
                with contextlib.redirect_stderr(io.StringIO()):
                    g = fn(text, sem)
            except ParseException as e:
                return ('fail', 'parse-exception')
            except RecursionError:
                return ('exc', 'RecursionError')
            except Exception as e:  # noqa
                return ('exc', type(e).__name__)
            try:
                return ('ok', json.dumps(g.asjson(), sort_keys=True, default=repr))
            except Exception as e:  # noqa
                return ('exc-asjson', type(e).__name__)
        return run

    def p1(text, sem):
        return P1cls(config=ParserConfig.new(name='G', semantics=sem)).parse(text)

    p2model = Grammar(name=GRAMMAR_MODEL.name, rules=GRAMMAR_MODEL.rules, directives=GRAMMAR_MODEL.directives, keywords=GRAMMAR_MODEL.keywords)

    def p2(text, sem):
        return p2model.parse(text, semantics=sem, name='G')

    def p3(text, sem):
        return p3model.parse(text, semantics=sem, name='G')

    def p4(text, sem):
        return P4cls(config=ParserConfig.new(name='G', semantics=sem)).parse(text)

    return {'P1-shipped-bootstrap.py': outcome(p1), 'P2-shipped-GRAMMAR_MODEL': outcome(p2), 'P3-compiled-_tatsu.ebnf': outcome(p3),
            'P4-regenerated-bootstrap': outcome(p4)}, p3model


class Coverage:
    """Semantics proxy: records which grammar rules produced a value (the action lookup is per rule name)."""

    def __init__(self, inner, hit):
        object.__setattr__(self, '_inner', inner)
        object.__setattr__(self, '_hit', hit)

    def __getattr__(self, name):
        self._hit.add(name.strip('_'))
        return getattr(self._inner, name)

    def __bool__(self):
        return True


REUSE_TEXTS = ["a: 'x' ;\n\nb: a 'y' ;\n", "@@keyword :: if\n\nstart: b $ ;\n\nb: 'z' ;\n", "a: 'x' ;\n\nb: a ( ;\n", "a: 'x' ;\n\na: 'y' ;\n", "c[T]: {'w'}+ ;\n"]


def reuse_part(rc):
    """One reader object used for several texts in a row, each with its own new semantics object: every text gives what a new
    reader object gives for it, whatever was read before and however that ended."""
    import itertools
    import tatsu
    from tatsu.boot.bootstrap import TatSuBootstrapParser as P1cls
    from tatsu.exceptions import ParseException
    from tatsu.ngcodegen.ngparser_gen import pythongen
    from tatsu.peg import GrammarSemantics
    from .. import impl
    _rs, p3model = get_readers()
    src = pythongen(p3model, parser_name='TatSuBootstrap')
    ns: dict = {'__name__': 'regenerated_bootstrap_reuse'}
    exec(compile(src, '<regenerated bootstrap>', 'exec'), ns)

    def read(parser, text):
        try:
            with contextlib.redirect_stderr(io.StringIO()):
                g = parser.parse(text, semantics=GrammarSemantics(name='G'))
            return ('ok', json.dumps(g.asjson(), sort_keys=True, default=repr))
        except ParseException:
            return ('fail', 'parse-exception')
        except Exception as e:  # noqa
            return ('exc', type(e).__name__)

    n = 0
    for rname, cls in (('P1-shipped-bootstrap.py', P1cls), ('P4-regenerated-bootstrap', ns['TatSuBootstrapParser'])):
        fresh = {t: read(cls(), t) for t in REUSE_TEXTS}
        for seq in itertools.product(REUSE_TEXTS, repeat=3):
            parser = cls()
            for step, t in enumerate(seq):
                got = read(parser, t)
                n += 1
                rc.add('evaluations')
                rc.add('transitions')
                if step:
                    rc.add('nontrivial')
                if got != fresh[t]:
                    rc.violation(f'reused-reader-object/differs-from-a-new-reader/{rname}', texts=list(seq), step=step,
                                 got=[got[0], got[1][:200]], want=[fresh[t][0], fresh[t][1][:200]])
                    break
    rc.coverage['reader_reuse_reads'] = n


_READERS = None


def get_readers():
    global _READERS
    if _READERS is None:
        _READERS = readers()
    return _READERS


def compare_text(m, label, text, hit=None):
    rs, p3model = get_readers()
    results = {}
    for name, r in rs.items():
        if hit is not None and name.startswith('P3'):
            from tatsu.peg import GrammarSemantics
            results[name] = r(text, lambda: Coverage(GrammarSemantics(name='G'), hit))
        else:
            results[name] = r(text)
        m.add('evaluations')
        m.add('transitions')
    m.add('states')
    kinds = {k: v[0] for k, v in results.items()}
    if any(v == 'ok' for v in kinds.values()):
        m.add('nontrivial')
        if label != 'edit':
            m.sample({'text': text[:300], 'label': label, 'outcomes': kinds}, limit=2)
    for k, v in results.items():
        if v[0].startswith('exc'):
            m.violation(f'foreign-exception/{v[1]}/{k}', text=text, label=label)
    if len(set(kinds.values())) > 1:
        m.violation('accept-reject-differs/' + '|'.join(f'{k.split("-")[0]}:{v}' for k, v in sorted(kinds.items())), text=text, label=label)
        return
    vals = {k: v[1] for k, v in results.items() if v[0] == 'ok'}
    if len(set(vals.values())) > 1:
        groups = {}
        for k, v in vals.items():
            groups.setdefault(v, []).append(k.split('-')[0])
        m.violation('models-differ/' + '|'.join(sorted('+'.join(g) for g in groups.values())), text=text, label=label,
                    models={k: v[:300] for k, v in vals.items()})


def shard(m, items, with_coverage=False):
    hit = set()
    for label, text in items:
        compare_text(m, label, text, hit if with_coverage else None)
    for h in hit:
        m.note('rules_hit', h)


def grammar_rule_names():
    _rs, p3model = get_readers()
    return sorted(r.name for r in p3model.rules)


def run(rc):
    import tatsu
    quick = rc.tier == 'quick'
    reuse_part(rc)
    ebnf = (Path(tatsu.__file__).parent / '_tatsu.ebnf').read_text()
    corpus = [(f'syntax/{k}', v) for k, v in SYNTAX.items()] + [(f'feature/{k}', v) for k, v in c13.FEATURES.items()] + \
             [(f'invalid/{k}', v) for k, v in INVALID.items()] + [(f'seed/{i}', s) for i, s in enumerate(c08.SEEDS)] + [('self', ebnf)]
    rc.pmap(shard, corpus, chunk=1, with_coverage=True)
    hit = rc.total.sets.get('rules_hit', set())
    names = grammar_rule_names()
    # rules reachable only as helpers of deprecated/unused paths are listed explicitly
    missing = [n for n in names if n not in hit and n.lower() not in {h.lower() for h in hit}]
    rc.coverage['grammar_rules'] = len(names)
    rc.coverage['grammar_rules_hit'] = len(names) - len(missing)
    rc.coverage['grammar_rules_never_hit'] = missing
    # rules that cannot produce a value in the shipped grammar, each with its reason
    _rs, p3model = get_readers()
    from tatsu import peg
    called, included = set(), set()

    def scan(node):
        if isinstance(node, peg.Call):
            called.add(node.name)
        if isinstance(node, peg.RuleInclude):
            included.add(node.name)
        for ch in node.children():
            scan(ch)
    for r in p3model.rules:
        scan(r)
    dead = {'start': 'inlined by the optimiser (`start: grammar`)',
            'DEDENT': 'its pattern /^\\S/ has no (?m) flag and can never match after an end of line',
            'hex': 'shadowed by `number`, which matches the leading 0'}
    for n in names:
        if n not in called and n != 'start':
            dead[n] = 'only reached through `>include`' if n in included else 'not referenced by any rule'
    rc.coverage['grammar_rules_unreachable'] = {k: v for k, v in dead.items() if k in missing}
    if [x for x in missing if x not in dead]:
        rc.violation('vacuous: grammar rules never exercised by the corpus: ' + ', '.join(x for x in missing if x not in dead))
    # single-edit neighbourhoods
    seeds = list(SYNTAX.values())[:6 if quick else len(SYNTAX)] + (c08.SEEDS[:2] if quick else c08.SEEDS)
    ed = []
    for s in seeds:
        if len(s) <= (90 if quick else 400):
            ed += [('edit', e) for e in c08.edits(s)]
    # deletions and swaps (the edits that push two lexemes together) for every short spelling seed, in both tiers
    for s in SYNTAX.values():
        if len(s) <= 110:
            ed += [('edit', s[:i] + s[i + 1:]) for i in range(len(s))]
            ed += [('edit', s[:i] + s[i + 1] + s[i] + s[i + 2:]) for i in range(len(s) - 1)]
    ed = list(dict.fromkeys(ed))
    rc.pmap(shard, ed)
    rc.coverage['edits'] = len(ed)
    jx = [('juxtaposition', t) for t in juxtapositions(2 if quick else 3)] + [('postfix-binding', t) for t in postfix_bindings()]
    rc.pmap(shard, jx)
    rc.coverage['juxtapositions'] = len(jx)
    c = rc.total.counts
    rc.rule = (f'{len(corpus)} grammar texts (every definition/terminator/parameter/string/pattern/postfix/join/name/group/decorator/directive/constant/'
               'comment spelling, the feature grammars of C13, invalid texts, the TatSu grammar itself) with measured rule coverage of _tatsu.ebnf, plus the complete '
               f'single-edit neighbourhood ({len(ed)} texts) of the short seeds, and every sequence of <= {2 if quick else 3} of {len(ELEMENTS)} element spellings '
               f'written without blanks in a rule body, and every (repetition or group, postfix, binding prefix, element) quadruple written without blanks ({len(jx)} texts); each read by the shipped generated parser, the shipped grammar model, the model '
               'compiled now from _tatsu.ebnf and the parser regenerated now from it; non-trivial = text accepted by some reader')
    rc.coverage.update({'states': c.get('states', 0), 'transitions': c.get('transitions', 0),
                        'traces_validated_against_impl': c.get('evaluations', 0), 'programs': 4})
    rc.assumptions += ['grammar models are compared through asjson(); P2/P3 read through Grammar.parse with GrammarSemantics as api.compile does']


def replay(data):
    import sys
    from ..replay import replay_by_rerun
    return replay_by_rerun(sys.modules[__name__], data)
