"""C19 — the packet queue is lossless and delivers each packet once, in order.

Codec: every string up to a length bound over the characters the encoding
itself uses, as data / recipient / dict key / nested, through pack->unpack
and rle_encode->rle_decode.
Queue: the real PacketzQueue on real files; every interleaving of k sends and
receives by 1..2 readers, each receive seeing the file cut at every byte
offset inside the last record (or whole); clock owned by the harness.
"""
from __future__ import annotations

import itertools
import os
import shutil
import tempfile

from ..explore import Chooser, explore, explore_root, split_first_deviation, split_prefixes

PROPERTY = 'C19'
LEVEL = 'model_checking'

ALPHA = ['~', 'a', '1', '"', '\\', 'e', '@', ':', '{', 'f', ' ', '\x1b', '\n']


def strings(alpha, maxlen):
    for n in range(maxlen + 1):
        for t in itertools.product(alpha, repeat=n):
            yield ''.join(t)


def causes(s: str, shape: str) -> str:
    """Root causes (recorded findings) that can explain a failed round trip of s; the
    signature names exactly the causes present, so an unexplained failure stands out."""
    c = []
    if '\\e' in s:
        c.append('backslash-e')          # tty_unescape rewrites the JSON text
    if s.startswith('f{') or s.startswith('\\e['):
        c.append('style-prefix')         # fromjson turns such strings into Style objects
    if shape == 'dict-key' and (s in ('@', '__class__') or s.endswith('"@')):
        c.append('class-marker-key')     # class_unescape rewrites "@": into "__class__":
    return '+'.join(c)


def codec_shard(m, items):
    from tatsu.packetz.compact import rle_decode, rle_encode
    from tatsu.packetz.packet import Packet, pack, unpack

    for s in items:
        m.add('evaluations')
        # run-length layer alone
        try:
            r = rle_decode(rle_encode(s))
        except Exception as e:  # noqa
            r = f'<{type(e).__name__}>'
        if r != s:
            m.violation('codec/rle-roundtrip', string=s, encoded=rle_encode(s), decoded=r)
        if len(s) >= 4 or '~' in s or '\\' in s:
            m.add('nontrivial')
        # full pipeline: as data, as recipient, as dict value, as dict key, in a list
        shapes = [('data', dict(to='x', data=s)), ('to', dict(to=s or None, data='d')), ('dict-value', dict(to='x', data={'k': s})),
                  ('list', dict(to='x', data=[s, [s]])), ('dict-key', dict(to='x', data={s: 1}))]
        for shape, kw in shapes:
            p = Packet(**kw)
            m.add('evaluations')
            try:
                q = unpack(pack(p))
                got = (getattr(q, 'to', None), getattr(q, 'data', None), getattr(q, 'id', None))
            except Exception as e:  # noqa
                got = f'<{type(e).__name__}: {str(e)[:80]}>'
            want = (p.to, p.data, p.id)
            if got != want:
                why = causes(s, shape)
                sig = f'codec/{why}' if why else f'codec/unexplained/{shape}'
                m.violation(sig, string=s, shape=shape, packet=kw, got=str(got)[:300], want=str(want)[:300])


# ------------------------------------------------------------------ queue

class FakeTime:
    def __init__(self):
        self.t = 1_000_000

    def monotonic_ns(self):
        self.t += 1009
        return self.t

    def __getattr__(self, name):
        import time
        return getattr(time, name)


PAYLOADS = [('a', 'p0'), ('b', {'k': 'é~~x', 'u': 'one\u2028two\u0085three\u2029\n\n\n\n\n'}), (None, ['aaaaa', 1, '\r\n']), ('c', 'p3')]


def queue_run(ch: Chooser, scratch: str, nsends: int, nreaders: int, maxrecv: int, collide_ids: bool = False):
    """One execution.  Returns (observation, violations)."""
    import tatsu.util.misc as misc
    from tatsu.packetz.queue import PacketzQueue

    d = tempfile.mkdtemp(dir=scratch)
    saved_time = misc.time
    misc.time = FakeTime()
    cwd = os.getcwd()
    os.chdir(d)   # PacketzQueue creates ./.packetz relative to the cwd
    try:
        real = os.path.join(d, 'q.jsonl')
        writer = PacketzQueue(real)
        readers = []
        for r in range(nreaders):
            view = os.path.join(d, f'view{r}.jsonl')
            readers.append({'q': PacketzQueue(view), 'view': view, 'delivered': [], 'vis': 0, 'recvs': 0})
        sent = []          # (id, to, data) of completed sends
        ends = [0]         # file length after each completed send
        log = []
        bad = []
        steps = 0
        while True:
            opts = []
            if len(sent) < nsends:
                opts.append(('send',))
            for r, rd in enumerate(readers):
                if rd['recvs'] < maxrecv and (len(sent) > 0):
                    opts.append(('recv', r))
            opts.append(('stop',))
            # default = first option (send while possible, then receive by reader 0 ...)
            act = opts[ch.pick(len(opts), 'event')]
            if act[0] == 'stop':
                break
            if act[0] == 'send':
                to, data = PAYLOADS[len(sent)]
                if collide_ids and len(sent) == 1:
                    misc.time.t -= 1009   # the clock did not advance: same id as the previous packet
                p = writer.send(to=to, data=data)
                sent.append((p.id, to, data))
                ends.append(os.path.getsize(real))
                log.append(('send', len(sent) - 1))
                continue
            r = act[1]
            rd = readers[r]
            rd['recvs'] += 1
            total = os.path.getsize(real)
            # visible length: whole file (default), or any byte offset inside the last
            # record, never less than what this reader has already been shown
            lo = max(rd['vis'], ends[-2])
            cuts = [total] + list(range(lo, total))
            vis = cuts[ch.pick(len(cuts), 'visible-length')]
            rd['vis'] = vis
            with open(real, 'rb') as f:
                data = f.read(vis)
            with open(rd['view'], 'wb') as f:
                f.write(data)
            got = []
            err = None
            try:
                for p in rd['q'].receive():
                    got.append((p.id, getattr(p, 'to', None), getattr(p, 'data', None)))
            except Exception as e:  # noqa
                err = type(e).__name__
            rd['delivered'] += got
            log.append(('recv', r, vis, len(got), err))
            # invariant after every receive: delivered is a duplicate-free prefix of the completed sends,
            # and contains only records wholly inside the visible prefix
            complete_visible = sum(1 for e in ends[1:] if e <= vis)
            dl = rd['delivered']
            if dl != sent[:len(dl)]:
                bad.append(('not-a-prefix-in-send-order', r, [x[0] for x in dl], [x[0] for x in sent]))
            if len(dl) > complete_visible:
                bad.append(('delivered-from-incomplete-record', r, len(dl), complete_visible))
            if err is None and vis == total and len(dl) != len(sent) and not collide_ids:
                bad.append(('complete-packet-not-delivered', r, len(dl), len(sent)))
        # closing: an untruncated receive by every reader must leave nothing behind
        for r, rd in enumerate(readers):
            shutil.copyfile(real, rd['view'])
            try:
                for p in rd['q'].receive():
                    rd['delivered'].append((p.id, getattr(p, 'to', None), getattr(p, 'data', None)))
            except Exception as e:  # noqa
                bad.append(('final-receive-raised', r, type(e).__name__))
            if rd['delivered'] != sent and not collide_ids:
                bad.append(('final-state-differs', r, [x[0] for x in rd['delivered']], [x[0] for x in sent]))
        obs = tuple(log)
        return obs, bad
    finally:
        misc.time = saved_time
        os.chdir(cwd)
        shutil.rmtree(d, ignore_errors=True)


def overlap_run(ch: Chooser, scratch: str, nsends: int = 3, ngens: int = 2):
    """One reader object, several receive() iterations alive at once (an iteration is a generator: a consumer may
    stop pulling from one, start another, and come back).  Every packet sent is handed out exactly once overall."""
    import tatsu.util.misc as misc
    from tatsu.packetz.queue import PacketzQueue

    d = tempfile.mkdtemp(dir=scratch)
    saved_time = misc.time
    misc.time = FakeTime()
    cwd = os.getcwd()
    os.chdir(d)
    try:
        real = os.path.join(d, 'q.jsonl')
        writer = PacketzQueue(real)
        reader = PacketzQueue(real)
        sent, delivered, log, bad = [], [], [], []
        gens = []          # live generators
        started = 0
        while True:
            opts = []
            if len(sent) < nsends:
                opts.append(('send',))
            if started < ngens and sent:
                opts.append(('begin',))
            for i, g in enumerate(gens):
                if g is not None:
                    opts.append(('step', i))
            opts.append(('stop',))
            act = opts[ch.pick(len(opts), 'event')]
            if act[0] == 'stop':
                break
            if act[0] == 'send':
                to, data = PAYLOADS[len(sent)]
                p = writer.send(to=to, data=data)
                sent.append(p.id)
                log.append(('send', len(sent) - 1))
            elif act[0] == 'begin':
                gens.append(reader.receive())
                started += 1
                log.append(('begin', len(gens) - 1))
            else:
                i = act[1]
                try:
                    p = next(gens[i])
                    delivered.append(p.id)
                    log.append(('step', i, sent.index(p.id) if p.id in sent else -1))
                except StopIteration:
                    gens[i] = None
                    log.append(('step', i, 'end'))
                except Exception as e:  # noqa
                    gens[i] = None
                    bad.append(('receive-raised', type(e).__name__))
            if len(delivered) != len(set(delivered)):
                bad.append(('packet-delivered-twice', [sent.index(x) for x in delivered]))
                break
        # closing: abandon the suspended iterations, then one complete receive
        for g in gens:
            if g is not None:
                g.close()
        try:
            for p in reader.receive():
                delivered.append(p.id)
        except Exception as e:  # noqa
            bad.append(('final-receive-raised', type(e).__name__))
        if sorted(delivered) != sorted(sent):
            bad.append(('overlapping-receives-lose-or-repeat-packets', [sent.index(x) if x in sent else -1 for x in delivered], len(sent)))
        return tuple(log), bad
    finally:
        misc.time = saved_time
        os.chdir(cwd)
        shutil.rmtree(d, ignore_errors=True)


def overlap_shard(m, items, bound=None):
    scratch = tempfile.mkdtemp(prefix='verif-c19o-', dir='/dev/shm' if os.path.isdir('/dev/shm') else None)
    try:
        for root in items:
            outs = set()
            for choices, ch, (obs, bad) in explore(lambda c: overlap_run(c, scratch), bound=bound, root=root):
                m.add('evaluations')
                m.add('transitions', len(obs))
                if sum(1 for e in obs if e[0] == 'begin') > 1:
                    m.add('nontrivial')
                outs.add(obs)
                for b in bad:
                    m.violation(f'queue/{b[0]}', choices=choices, log=obs, detail=b)
            m.add('states', len(outs))
            m.add('overlap_executions', len(outs))
    finally:
        shutil.rmtree(scratch, ignore_errors=True)


def queue_shard(m, items):
    scratch = tempfile.mkdtemp(prefix='verif-c19-', dir='/dev/shm' if os.path.isdir('/dev/shm') else None)
    try:
        for (nsends, nreaders, maxrecv, bound), root in items:
            outs = set()

            def body(ch):
                return queue_run(ch, scratch, nsends, nreaders, maxrecv)

            first = True
            how, root = root
            it = explore(body, bound=bound, root=root) if how == 'prefix' else explore_root(body, bound, root)
            for choices, ch, (obs, bad) in it:
                if first:
                    obs2, _ = body(Chooser(choices))
                    if obs2 != obs:
                        m.violation('harness-nondeterministic', a=obs, b=obs2)
                    first = False
                m.add('evaluations')
                m.add('transitions', len(obs))
                if ch.deviations:
                    m.add('nontrivial')
                outs.add(obs)
                for b in bad:
                    m.violation(f'queue/{b[0]}', sends=nsends, readers=nreaders, choices=choices, log=obs, detail=b)
            m.add('states', len(outs))
            m.note('queue_executions', ((nsends, nreaders, maxrecv, bound), root, len(outs)))
            if outs and len(root) and root[0] == 0 and len(outs) > 50:
                m.sample({'sends': nsends, 'readers': nreaders, 'max_receives_per_reader': maxrecv, 'deviation_bound': bound,
                          'subtree_root': root, 'executions_in_subtree': len(outs), 'one_history': [list(x) for x in sorted(outs, key=len)[-1]]})
    finally:
        shutil.rmtree(scratch, ignore_errors=True)


def queue_work(cfgs):
    scratch = tempfile.mkdtemp(prefix='verif-c19s-', dir='/dev/shm' if os.path.isdir('/dev/shm') else None)
    work = []
    try:
        for cfg in cfgs:
            nsends, nreaders, maxrecv, bound = cfg
            body = lambda ch: queue_run(ch, scratch, nsends, nreaders, maxrecv)  # noqa: E731
            if bound is None:
                roots = [('prefix', r) for r in split_prefixes(body, 3, bound)]
            else:
                roots = [('first-deviation', r) for r in split_first_deviation(body)]
            for root in roots:
                work.append((cfg, root))
    finally:
        shutil.rmtree(scratch, ignore_errors=True)
    return work


def run(rc):
    quick = rc.tier == 'quick'
    maxlen = 4 if quick else 5
    strs = list(strings(ALPHA, maxlen))
    rc.pmap(codec_shard, strs, chunk=500)
    rc.coverage['codec_strings'] = len(strs)
    # queue configurations: (sends, readers, max receives per reader, deviation bound (None = full tree))
    cfgs = [(1, 1, 2, None), (2, 1, 2, None), (2, 2, 1, None), (2, 1, 3, 2), (3, 1, 2, 2), (2, 2, 2, 2)]
    if not quick:
        cfgs = [(1, 1, 2, None), (2, 1, 2, None), (2, 2, 1, None), (2, 1, 3, 3), (3, 1, 2, 3), (2, 2, 2, 3), (3, 1, 3, 3), (3, 2, 2, 2), (4, 1, 2, 2)]
    obound = None       # the complete tree: 1 731 executions
    scratch = tempfile.mkdtemp(prefix='verif-c19p-', dir='/dev/shm' if os.path.isdir('/dev/shm') else None)
    try:
        roots = list(split_prefixes(lambda ch: overlap_run(ch, scratch), 3, obound))
    finally:
        shutil.rmtree(scratch, ignore_errors=True)
    rc.pmap(overlap_shard, roots, chunk=1, bound=obound)
    rc.coverage['overlapping_receive_executions'] = rc.count('overlap_executions')
    work = queue_work(cfgs)
    rc.pmap(queue_shard, work, chunk=1)
    rc.coverage['queue_subtrees'] = len(work)
    c = rc.total.counts
    rc.rule = (f'codec: all strings of length <= {maxlen} over {{~ a 1 " \\ e @ : {{ f space ESC LF}} as data, recipient, dict value, dict key and nested '
               'list through pack->unpack, and through rle_encode->rle_decode; queue: every interleaving of k sends and receives by 1-2 readers on a real '
               'file, each receive seeing the whole file or the file cut at every byte offset of the last record (full choice tree for small '
               'configurations, deviation-bounded for larger ones); and every interleaving of 3 sends with two receive() iterations that are alive at the same '
               'time on one reader object, stepped packet by packet; non-trivial = string using an encoding character / schedule with a non-default choice')
    rc.coverage.update({'states': c.get('states', 0), 'transitions': c.get('transitions', 0),
                        'traces_validated_against_impl': c.get('evaluations', 0), 'queue_configs': cfgs})
    if any(b is not None for *_x, b in cfgs):
        rc.cap('queue configurations beyond (2 sends, 1 reader, 2 receives) and (2 sends, 2 readers, 1 receive) are explored up to a bound on non-default choices')
    rc.assumptions += ['a reader sees a prefix of the append-only file (modelled by copying the first L bytes to the reader\'s own path)',
                       'packet ids are distinct (clock seam advances); an id collision is recorded separately and decides nothing',
                       'an exception out of receive() during a truncated read is tolerated if nothing is thereby lost or repeated']


def replay(data):
    """Re-executes a recorded queue schedule (choice list) or codec string."""
    d = data['detail']
    sig = data.get('signature', '')
    scratch = tempfile.mkdtemp(prefix='verif-c19r-', dir='/dev/shm' if os.path.isdir('/dev/shm') else None)
    try:
        if 'choices' in d and 'sends' in d:
            obs, bad = queue_run(Chooser(tuple(d['choices'])), scratch, d['sends'], d['readers'], 3)
        elif 'choices' in d:
            obs, bad = overlap_run(Chooser(tuple(d['choices'])), scratch)
        elif 'string' in d:
            from ..runner import Merge
            m = Merge()
            codec_shard(m, [d['string']])
            for v in m.violations:
                print(v['signature'], str(v['detail'])[:300])
            hit = any(v['signature'] == sig for v in m.violations)
            if hit:
                print('VIOLATION property=C19 replay=reproduced')
            return 1 if hit else 0
        else:
            print('replay: nothing executable in this record')
            return 1
        for e in obs:
            print('  ', e)
        for b in bad:
            print('BAD', b)
        if bad:
            print('VIOLATION property=C19 replay=reproduced')
        return 1 if bad else 0
    finally:
        shutil.rmtree(scratch, ignore_errors=True)
