"""E2 — reference evaluator for the documented PEG semantics of TatSu grammars.

Purely functional big-step evaluator over the IR of gramspace: no memo, no
state stack, no mutation of shared structures.  See DESIGN.md appendix A.

eval(e, p, scope) -> None (failure) | (p', items, binds)
  items : list of values this expression contributes to the enclosing scope
  binds : list of operations on the enclosing rule-level AST, applied in order
          ('def', singles, lists) | ('set', name, v) | ('add', name, v)
          | ('ovr', v) | ('ovrl', v)
A *scope* carries the cut flag; groups do not open scopes.
"""
from __future__ import annotations

import re
from dataclasses import dataclass, field
from typing import Any

from .gramspace import Grammar, Rule, SEPPED, subexps

DICT_ATTRS = frozenset(vars(dict).keys())


class Undecided(Exception):
    """The documentation does not decide this case (kept out of the oracle)."""


class RefSemanticFailure(Exception):
    """FailedSemantics raised by an action (used by C06)."""


@dataclass
class Cfg:
    whitespace: Any = 'DEFAULT'     # 'DEFAULT' -> \s+ ; None/'' -> none ; else regex text
    comments: str | None = None
    eol_comments: str | None = None
    nameguard: bool | None = None
    namechars: str = ''
    ignorecase: bool = False
    keywords: tuple = ()
    left_recursion: bool = True

    def ws_re(self):
        if self.whitespace == 'DEFAULT':
            return re.compile(r'(?m)\s+')
        if not self.whitespace:
            return None
        return re.compile(self.whitespace)

    def effective_nameguard(self) -> bool:
        if self.namechars:
            return True
        if self.nameguard is not None:
            return self.nameguard
        return bool(self.ws_re()) or bool(self.namechars)


class Scope:
    __slots__ = ('cut',)

    def __init__(self):
        self.cut = False


def safekey(k: str) -> str:
    while k in DICT_ATTRS:
        k += '_'
    return k


def declared(e: tuple) -> tuple[list, list]:
    """Names syntactically nested in e (not through calls): (singles, lists)."""
    singles, lists = [], []
    for x in subexps(e):
        if x[0] == 'named' and x[1] not in singles:
            singles.append(x[1])
        elif x[0] == 'nlist' and x[1] not in lists:
            lists.append(x[1])
    return singles, lists


def fold_items(items: list) -> Any:
    if not items:
        return None
    if len(items) == 1:
        return items[0]
    return list(items)


class Ref:
    def __init__(self, grammar: Grammar, cfg: Cfg | None = None, actions: Any = None,
                 step_limit: int = 200000, quirks: frozenset = frozenset()):
        # quirks: names of *known defects* of the implementation to emulate; used only to
        # classify a disagreement as an already recorded finding, never as the oracle.
        self.quirks = quirks
        self.g = grammar
        self.cfg = cfg or Cfg()
        self.rules = {}
        for r in grammar.rules:   # later definitions (@override) replace earlier ones
            self.rules[r.name] = r
        self.ws = self.cfg.ws_re()
        self.cm = re.compile(self.cfg.comments) if self.cfg.comments else None
        self.ec = re.compile(self.cfg.eol_comments) if self.cfg.eol_comments else None
        self.nameguard = self.cfg.effective_nameguard()
        self.namechars = set(self.cfg.namechars or '')
        self.keywords = {k.upper() if self.cfg.ignorecase else k for k in self.cfg.keywords}
        self.actions = actions
        self.text = ''
        self.steps = 0
        self.step_limit = step_limit
        self.lr_heads: dict = {}     # (rule, pos) -> seed result while growing
        self.lr_cycle_members = self._left_cycles()
        self.calls: list = []        # log of (rule, pos, endpos, value) successful evaluations
        self.murky = False

    # ------------------------------------------------------------ lexical
    def skip(self, p: int) -> int:
        t = self.text
        while True:
            q = p
            if self.ws:
                m = self.ws.match(t, q)
                while m and m.end() > q:
                    q = m.end()
                    m = self.ws.match(t, q)
            if self.ec:
                m = self.ec.match(t, q)
                if m and m.end() > q:
                    q = m.end()
            if self.cm:
                m = self.cm.match(t, q)
                if m and m.end() > q:
                    q = m.end()
            if q == p:
                return p
            p = q

    def is_name_char(self, c: str) -> bool:
        return c.isalnum() or c in self.namechars

    def is_name(self, s: str) -> bool:
        if not s:
            return False
        return (s[0].isalpha() or s[0] in self.namechars) and all(self.is_name_char(c) for c in s[1:])

    def match_token(self, tok: str, p: int) -> int | None:
        t = self.text
        seg = t[p:p + len(tok)]
        ok = seg.lower() == tok.lower() if self.cfg.ignorecase else seg == tok
        if not ok or not tok:
            return None
        q = p + len(tok)
        if self.nameguard and q < len(t) and self.is_name_char(t[q]) and self.is_name(tok):
            return None
        return q

    # ------------------------------------------------------------ left recursion analysis
    def _nullable_rules(self) -> set:
        nul: set = set()
        changed = True
        while changed:
            changed = False
            for r in self.rules.values():
                if r.name not in nul and self._nullable(self.rhs(r), nul):
                    nul.add(r.name)
                    changed = True
        return nul

    def _nullable(self, e, nul) -> bool:
        k = e[0]
        if k in ('tok', 'dot', 'fail', 'meta'):
            return False
        if k == 'pat':
            return bool(re.match(e[1], ''))
        if k in ('void', 'eclo', 'cut', 'const', 'opt', 'clo', 'look', 'nlook', 'join', 'gather', 'eof', 'eol', 'alert'):
            return True
        if k == 'seq':
            return all(self._nullable(x, nul) for x in e[1:])
        if k == 'alt':
            return any(self._nullable(x, nul) for x in e[1:])
        if k in ('grp', 'ovr', 'ovrl', 'skipto', 'pclo'):
            return self._nullable(e[1], nul)
        if k in ('named', 'nlist'):
            return self._nullable(e[2], nul)
        if k in ('pjoin', 'pgather'):
            return self._nullable(e[2], nul)
        if k in ('call', 'inc'):
            return e[1] in nul
        raise ValueError(e)

    def _left_calls(self, e, nul) -> set:
        k = e[0]
        if k in ('call', 'inc'):
            return {e[1]}
        if k == 'seq':
            out = set()
            for x in e[1:]:
                out |= self._left_calls(x, nul)
                if not self._nullable(x, nul):
                    break
            return out
        if k == 'alt':
            out = set()
            for x in e[1:]:
                out |= self._left_calls(x, nul)
            return out
        if k in ('grp', 'opt', 'clo', 'pclo', 'look', 'nlook', 'ovr', 'ovrl', 'skipto'):
            return self._left_calls(e[1], nul)
        if k in ('named', 'nlist'):
            return self._left_calls(e[2], nul)
        if k in SEPPED:
            out = self._left_calls(e[2], nul)
            if self._nullable(e[2], nul):
                out |= self._left_calls(e[1], nul)
            return out
        return set()

    def _left_cycles(self) -> dict:
        """rule name -> frozenset of the rules in its left-recursive SCC (only
        for rules on a left cycle)."""
        nul = self._nullable_rules()
        graph = {n: {c for c in self._left_calls(self.rhs(r), nul) if c in self.rules} for n, r in self.rules.items()}
        reach = {n: set(s) for n, s in graph.items()}
        changed = True
        while changed:
            changed = False
            for n in reach:
                new = set()
                for m in reach[n]:
                    new |= reach.get(m, set())
                if not new <= reach[n]:
                    reach[n] |= new
                    changed = True
        out = {}
        for n in reach:
            if n in reach[n]:
                out[n] = frozenset(m for m in reach[n] if n in reach.get(m, ()) ) | {n}
        return out

    # ------------------------------------------------------------ evaluation
    def tick(self):
        self.steps += 1
        if self.steps > self.step_limit:
            raise Undecided('step limit')

    def eval(self, e: tuple, p: int, sc: Scope):
        self.tick()
        k = e[0]
        t = self.text
        if k == 'tok':
            q = self.skip(p)
            r = self.match_token(e[1], q)
            if r is None:
                return None
            return (r, [e[1]], [])
        if k == 'pat':
            m = re.compile(e[1]).match(t, p)
            if not m:
                return None
            g = m.groups(default='')
            if len(g) == 1:
                v = g[0]
            elif len(g) == 0:
                v = m.group()
            else:
                raise Undecided('pattern with several groups')
            return (m.end(), [v], [])
        if k == 'dot':
            if p >= len(t):
                return None
            return (p + 1, [t[p]], [])
        if k == 'void':
            return (self.skip(p), [], [])
        if k == 'fail':
            return None
        if k == 'eof':
            q = self.skip(p)
            return (q, [], []) if q >= len(t) else None
        if k == 'eclo':
            return (p, [[]], [])
        if k == 'cut':
            sc.cut = True
            return (p, [], [])
        if k == 'const':
            return (self.skip(p), [self.const_value(e[1])], [])
        if k == 'seq':
            items, binds = [], []
            singles, lists = declared(e)
            if singles or lists:
                binds.append(('def', singles, lists))
            for x in e[1:]:
                r = self.eval(x, p, sc)
                if r is None:
                    return None
                p, it, b = r
                items += it
                binds += b
            return (p, items, binds)
        if k == 'grp':
            return self.eval(e[1], p, sc)
        if k == 'alt':
            for opt in e[1:]:
                s2 = Scope()
                r = self.eval(opt, p, s2)
                if r is not None:
                    singles, lists = declared(opt)
                    pre = [('def', singles, lists)] if (singles or lists) else []
                    return (r[0], r[1], pre + r[2])
                if s2.cut:
                    return None
            return None
        if k == 'opt':
            s2 = Scope()
            r = self.eval(e[1], p, s2)
            if r is not None:
                singles, lists = declared(e[1])
                pre = [('def', singles, lists)] if (singles or lists) else []
                return (r[0], r[1], pre + r[2])
            if s2.cut:
                return None
            return (p, [], [])
        if k in ('clo', 'pclo'):
            return self.repeat(None, e[1], p, positive=(k == 'pclo'), keepsep=False)
        if k in SEPPED:
            return self.repeat(e[1], e[2], p, positive=k.startswith('p'), keepsep=k in ('join', 'pjoin'))
        if k == 'look':
            r = self.eval(e[1], p, Scope())
            return None if r is None else (p, [], [])
        if k == 'nlook':
            r = self.eval(e[1], p, Scope())
            return (p, [], []) if r is None else None
        if k == 'skipto':
            q = p
            while q < len(t):
                if self.eval(e[1], q, Scope()) is not None:
                    break
                s = self.skip(q)
                q = s if s != q else q + 1
            return self.eval(e[1], q, sc)
        if k == 'call':
            r = self.call(e[1], p)
            if r is None:
                return None
            return (r[0], [r[1]], [])
        if k == 'inc':
            return self.eval(self.rhs(self.rules[e[1]]), p, sc)
        if k in ('named', 'nlist'):
            r = self.eval(e[2], p, sc)
            if r is None:
                return None
            v = self.value_of(e[2], r[1])
            op = 'set' if k == 'named' else 'add'
            return (r[0], r[1], r[2] + [(op, e[1], v)])
        if k in ('ovr', 'ovrl'):
            r = self.eval(e[1], p, sc)
            if r is None:
                return None
            v = self.value_of(e[1], r[1])
            return (r[0], r[1], r[2] + [(k, v)])
        if k == 'meta':
            return self.meta(e[1], p)
        raise ValueError(f'refsem: unsupported {e!r}')

    def value_of(self, e: tuple, items: list) -> Any:
        """The 'result of e' bound by a name: the fold of what e contributed."""
        return fold_items(items)

    def repeat(self, sep, body, p, positive: bool, keepsep: bool):
        values = []
        binds: list = []
        first = True
        first_cut = False
        p0 = p
        while True:
            s2 = Scope()
            q = p
            its: list = []
            b2: list = []
            if not first and sep is not None:
                r = self.eval(sep, q, Scope())
                if r is None:
                    break
                q = r[0]
                if keepsep:
                    sv = fold_items(r[1])
                    if not (sv is None and 'later-none-iteration-dropped' in self.quirks):
                        its.append(sv)
                b2 += r[2]
                s2.cut = True   # a join commits after each separator
            sb = Scope()
            r = self.eval(body, q, sb)
            if sb.cut and (first or 'cut-lost-in-later-iterations' not in self.quirks):
                s2.cut = True
                if first:
                    first_cut = True
            if r is None:
                if s2.cut:
                    if first and not positive:
                        # {x} = B -> x B | e : the first option was committed
                        return None
                    if not first and sep is not None and not positive and not first_cut:
                        # s%{e} = s%{e}+ | {} : the positive form fails, the empty closure remains
                        # (unless the first e passed a cut, which commits that first option)
                        return (p0, [[]], [])
                    return None
                break
            if r[0] == p and not first:
                break   # no progress ends the repetition
            if r[0] == q and first and sep is None and r[0] == p:
                raise Undecided('closure body matched empty')
            v = fold_items(r[1])
            if not (v is None and not first and not keepsep and 'later-none-iteration-dropped' in self.quirks):
                its.append(v)
            values += its
            binds += b2 + r[2]
            p = r[0]
            first = False
        if first and positive:
            return None
        return (p, [values], binds)

    @staticmethod
    def closed(v):
        return v

    def const_value(self, text: str):
        import ast as pyast
        try:
            return pyast.literal_eval(text.strip())
        except (ValueError, SyntaxError):
            if '{' in text:
                raise Undecided('interpolated constant')
            return text

    def meta(self, kind: str, p: int):
        raise Undecided('meta expressions are checked differentially (C08)')

    # ------------------------------------------------------------ rules
    def call(self, name: str, p: int):
        rule = self.rules[name]
        is_tokn = name.lstrip('_')[:1].isupper()
        q = p if is_tokn else self.skip(p)
        if self.cfg.left_recursion and name in self.lr_cycle_members:
            if 'static-min-name-leader' in self.quirks and name != self.static_leader(name):
                return self.rule_body(rule, q)
            return self.lr_call(rule, q)
        return self.rule_body(rule, q)

    def static_leader(self, name: str) -> str:
        """Emulation of the implementation's leader choice (known defect: the leader is
        fixed per component as the alphabetically smallest rule lying on every cycle, whatever
        rule the parse enters the cycle through)."""
        scc = self.lr_cycle_members[name]
        nul = self._nullable_rules()
        graph = {n: {c for c in self._left_calls(self.rhs(self.rules[n]), nul) if c in scc} for n in scc}

        def cyclic(nodes):
            for s0 in nodes:
                seen, todo = set(), [c for c in graph[s0] if c in nodes]
                while todo:
                    x = todo.pop()
                    if x == s0:
                        return True
                    if x not in seen:
                        seen.add(x)
                        todo += [c for c in graph[x] if c in nodes]
            return False
        cands = [r for r in scc if not cyclic(scc - {r})]
        return min(cands or scc)

    def lr_call(self, rule: Rule, q: int):
        key = (rule.name, q)
        if key in self.lr_heads:
            return self.lr_heads[key]
        # is another member of this cycle already growing at q?  then this rule
        # is evaluated plainly (not remembered)
        cyc = self.lr_cycle_members[rule.name]
        for (n, pos) in self.lr_heads:
            if pos == q and n in cyc:
                return self.rule_body(rule, q)
        self.lr_heads[key] = None   # seed: failure
        try:
            best = None
            while True:
                r = self.rule_body(rule, q)
                if r is None:
                    break
                if best is not None and r[0] <= best[0]:
                    break
                best = r
                self.lr_heads[key] = best
            return best
        finally:
            del self.lr_heads[key]

    def rhs(self, rule: Rule):
        """The right hand side a rule parses: for a based rule, that of its base followed by its own (docs: b < a: x  ==  b: >a x)."""
        if rule.base:
            return ('seq', self.rhs(self.rules[rule.base]), rule.exp)
        return rule.exp

    def rule_body(self, rule: Rule, q: int):
        self.tick()
        exp = self.rhs(rule)
        sc = Scope()
        r = self.eval(exp, q, sc)
        if r is None:
            return None
        p2, items, binds = r
        value = self.build_value(items, binds)
        if 'name' in rule.decorators:
            s = str(value)
            if self.cfg.ignorecase:
                s = s.upper()
            if s in self.keywords:
                return None
        if self.actions is not None:
            try:
                value = self.actions(rule, value, q, p2)
            except RefSemanticFailure:
                return None
        self.calls.append((rule.name, q, p2, value))
        return (p2, value)

    def build_value(self, items: list, binds: list):
        ast: dict = {}
        accumulated: set = set()
        override = None
        has_override = False
        for b in binds:
            if b[0] == 'def':
                for n in b[2]:
                    ast.setdefault(safekey(n), [])
                for n in b[1]:
                    if n not in b[2]:
                        ast.setdefault(safekey(n), None)
            elif b[0] == 'set':
                n = safekey(b[1])
                cur = ast.get(n)
                if cur is None:
                    ast[n] = b[2]
                elif n in accumulated:
                    ast[n] = cur + [b[2]]
                elif isinstance(cur, list) or isinstance(b[2], list):
                    raise Undecided('list-valued name bound twice')
                else:
                    # docs/ast.rst: an entry is a list when more than one item was associated with the name
                    ast[n] = [cur, b[2]]
                    accumulated.add(n)
            elif b[0] == 'add':
                n = safekey(b[1])
                cur = ast.get(n)
                if cur is None:
                    ast[n] = [b[2]]
                elif isinstance(cur, list):
                    ast[n] = cur + [b[2]]
                else:
                    raise Undecided('name bound both plainly and as list')
            elif b[0] == 'ovr':
                if has_override:
                    raise Undecided('override bound twice')
                override, has_override = b[1], True
            elif b[0] == 'ovrl':
                if has_override:
                    if not isinstance(override, list):
                        raise Undecided('mixed override forms')
                    override = override + [b[1]]
                else:
                    override, has_override = [b[1]], True
        if has_override:
            return override
        if ast:
            return ast
        return fold_items(items)

    # ------------------------------------------------------------ entry
    def parse(self, text: str, start: str | None = None):
        """-> ('ok', value, endpos) | ('fail',)"""
        self.text = text
        self.steps = 0
        self.lr_heads = {}
        self.calls = []
        name = start or self.g.rules[0].name
        r = self.call(name, 0)
        if r is None:
            return ('fail',)
        return ('ok', r[1], r[0])
