"""E6 runner: evidence, violations, known findings, sharded execution.

Every check module under mc/checks exposes

    PROPERTY = 'Cxx'
    LEVEL = 'model_checking' | 'exploration' | ...
    def run(rc: RunContext) -> None

and reports through the RunContext.  Nothing here samples: `pmap` shards a
*complete* list of work items deterministically over worker processes.
"""
from __future__ import annotations

import hashlib
import json
import multiprocessing as mp
import os
import shutil
import sys
import tempfile
import time
import traceback
from pathlib import Path
from typing import Any, Callable, Iterable

HOME = Path(os.environ.get('VERIF_HOME', Path(__file__).resolve().parent.parent))
REPO = Path(os.environ.get('VERIF_REPO', '/repo')).resolve()
NPROC = int(os.environ.get('VERIF_NPROC', '16'))


def assert_tree() -> None:
    """The tatsu that is imported must be the tree under test."""
    import tatsu

    f = Path(tatsu.__file__).resolve()
    if REPO not in f.parents:
        raise SystemExit(f'FATAL: tatsu imported from {f}, expected under {REPO}')


def jsonable(o: Any, depth: int = 0) -> Any:
    if depth > 12:
        return repr(o)[:200]
    if o is None or isinstance(o, (bool, int, float, str)):
        return o
    if isinstance(o, dict):
        return {str(k): jsonable(v, depth + 1) for k, v in o.items()}
    if isinstance(o, (list, tuple, set, frozenset)):
        return [jsonable(v, depth + 1) for v in o]
    return repr(o)[:300]


class Merge:
    """Mergeable partial result returned by shard workers."""

    def __init__(self) -> None:
        self.counts: dict[str, int] = {}
        self.violations: list[dict] = []
        self.samples: list[Any] = []
        self.sets: dict[str, set] = {}
        self.caps: list[str] = []

    def add(self, key: str, n: int = 1) -> None:
        self.counts[key] = self.counts.get(key, 0) + n

    def note(self, key: str, value: Any) -> None:
        self.sets.setdefault(key, set()).add(value)

    def reach(self, group: str, label: Any, hit: bool = True) -> None:
        """Vacuity bookkeeping: `label` is an entry of the hand-written corpus `group`; hit = it was exercised
        non-trivially (accepted an input, was called, fired).  Entries never hit are listed in the evidence."""
        self.sets.setdefault(f'reach_all::{group}', set()).add(str(label))
        if hit:
            self.sets.setdefault(f'reach_hit::{group}', set()).add(str(label))

    def violation(self, signature: str, **detail: Any) -> None:
        # keep at most a few full details per signature inside a shard
        n = sum(1 for v in self.violations if v['signature'] == signature)
        self.add('violations_raw')
        if n < 3:
            self.violations.append({'signature': signature, 'detail': jsonable(detail)})
        else:
            self.add(f'violations_suppressed::{signature}')

    def sample(self, case: Any, limit: int = 4) -> None:
        if len(self.samples) < limit:
            self.samples.append(jsonable(case))

    def absorb(self, other: 'Merge') -> None:
        for k, v in other.counts.items():
            self.counts[k] = self.counts.get(k, 0) + v
        self.violations.extend(other.violations)
        for s in other.samples:
            if len(self.samples) < 8:
                self.samples.append(s)
        for k, v in other.sets.items():
            self.sets.setdefault(k, set()).update(v)
        self.caps.extend(c for c in other.caps if c not in self.caps)


_ACTIVE_COV = None


def _cov_start():
    """VERIF_COV=<dir>: line coverage of the tatsu tree while a shard runs (tools/covreport.py reads it).
    A measuring aid for finding blind spots of a check; never on in registered commands."""
    d = os.environ.get('VERIF_COV')
    if not d:
        return None
    import coverage
    global _ACTIVE_COV
    if _ACTIVE_COV is not None:        # inherited from the forking parent: the parent saves its own data
        try:
            _ACTIVE_COV.stop()
        except Exception:  # noqa
            pass
    os.makedirs(d, exist_ok=True)
    cov = _ACTIVE_COV = coverage.Coverage(data_file=os.path.join(d, '.coverage'), data_suffix=True, include=[str(REPO / 'tatsu' / '*')])
    cov.start()
    return cov


def _cov_stop(cov):
    global _ACTIVE_COV
    if cov is not None:
        cov.stop()
        cov.save()
        _ACTIVE_COV = None


def _worker(args):
    func, shard_index, items, extra = args
    try:
        assert_tree()
        m = Merge()
        cov = _cov_start()
        try:
            func(m, items, **extra)
        finally:
            _cov_stop(cov)
        return m
    except BaseException:  # noqa
        m = Merge()
        m.violation('harness-crash', shard=shard_index, trace=traceback.format_exc()[-3000:])
        m.add('harness_crash')
        return m


class RunContext:
    def __init__(self, prop: str, level: str, tier: str, seed: int) -> None:
        self.prop = prop
        self.level = level
        self.tier = tier
        self.seed = seed
        self.t0 = time.time()
        self.total = Merge()
        self.coverage: dict[str, Any] = {}
        self.assumptions: list[str] = []
        self.rule = ''
        self.exhaustive = True
        self.scratch = Path(tempfile.mkdtemp(prefix=f'verif-{prop}-', dir='/dev/shm' if os.path.isdir('/dev/shm') else None))
        self.known = load_known()

    # ---- reporting helpers used in-process ------------------------------
    def add(self, key: str, n: int = 1) -> None:
        self.total.add(key, n)

    def violation(self, signature: str, **detail: Any) -> None:
        self.total.violation(signature, **detail)

    def sample(self, case: Any) -> None:
        self.total.sample(case)

    def reach(self, group: str, label: Any, hit: bool = True) -> None:
        self.total.reach(group, label, hit)

    def cap(self, text: str) -> None:
        self.exhaustive = False
        if text not in self.total.caps:
            self.total.caps.append(text)

    def count(self, key: str) -> int:
        return self.total.counts.get(key, 0)

    # ---- sharded execution ----------------------------------------------
    def pmap(self, func: Callable, items: Iterable[Any], nshards: int | None = None,
             chunk: int | None = None, **extra: Any) -> None:
        """Run func(merge, items_chunk, **extra) over all items, in worker
        processes; chunks are contiguous slices in enumeration order."""
        items = list(items)
        if not items:
            return
        nproc = max(1, min(NPROC, len(items)))
        if chunk is None:
            chunk = max(1, len(items) // (nproc * 4))
        chunks = [items[i:i + chunk] for i in range(0, len(items), chunk)]
        work = [(func, i, c, extra) for i, c in enumerate(chunks)]
        if nproc == 1 or os.environ.get('VERIF_SERIAL'):
            for w in work:
                self.total.absorb(_worker(w))
            return
        ctx = mp.get_context('fork')
        with ctx.Pool(nproc, maxtasksperchild=None) as pool:
            for m in pool.imap_unordered(_worker, work):
                self.total.absorb(m)

    # ---- finishing ------------------------------------------------------
    def finish(self) -> int:
        wall = time.time() - self.t0
        viol = self.total.violations
        known_hits: dict[str, dict] = {}
        unknown: list[dict] = []
        for v in viol:
            k = match_known(self.known, self.prop, v['signature'])
            if k is not None:
                known_hits.setdefault(k['signature'], k)
            else:
                unknown.append(v)
        cov = dict(self.coverage)
        c = self.total.counts
        cov.setdefault('evaluations', c.get('evaluations', 0))
        cov.setdefault('distinct_nontrivial', c.get('nontrivial', 0))
        cov.setdefault('rule', self.rule)
        cov.setdefault('samples', self.total.samples[:8])
        cov['exhaustive'] = bool(self.exhaustive and not self.total.caps)
        if self.total.caps:
            cov['caps'] = self.total.caps
        cov['counters'] = {k: v for k, v in sorted(c.items()) if not k.startswith('violations_suppressed')}
        vac = {}
        for k, s in self.total.sets.items():
            if k.startswith('reach_all::'):
                g = k.split('::', 1)[1]
                never = sorted(s - self.total.sets.get(f'reach_hit::{g}', set()))
                vac[g] = {'entries': len(s), 'never_exercised': never}
                if never:
                    print(f'NOTE {self.prop}: corpus entries never exercised non-trivially in {g}: {never[:12]}')
            elif not k.startswith('reach_hit::'):
                cov.setdefault(f'distinct_{k}', len(s))
        if vac:
            cov['corpus_reach'] = vac
        cov['known_findings_seen'] = sorted(known_hits)
        ev = {
            'property_id': self.prop,
            'tier': self.tier,
            'seed': self.seed,
            'level': self.level,
            'coverage': cov,
            'assumptions': self.assumptions,
            'wall_s': round(wall, 2),
            'violations': len(unknown),
            'tree': str(REPO),
        }
        evdir = HOME / 'evidence'
        evdir.mkdir(exist_ok=True)
        if getattr(self, 'no_evidence', False):
            pass
        elif REPO == Path('/repo') or os.environ.get('VERIF_WRITE_EVIDENCE'):
            (evdir / f'{self.prop}.json').write_text(json.dumps(ev, indent=1, sort_keys=True, ensure_ascii=False) + '\n')
            if self.tier == 'thorough':
                # kept beside the evidence of the last run, which a later quick run overwrites
                (evdir / 'thorough').mkdir(exist_ok=True)
                (evdir / 'thorough' / f'{self.prop}.json').write_text(json.dumps(ev, indent=1, sort_keys=True, ensure_ascii=False) + '\n')
        for k in known_hits.values():
            print(f"KNOWN-FINDING: property={self.prop} {k['signature']} :: {k.get('what', '')}")
        if os.environ.get('VERIF_DEBUG'):
            bysig: dict = {}
            for v in unknown:
                bysig.setdefault(v['signature'], []).append(v['detail'])
            with open(f'/dev/shm/verif-debug-{self.prop}.json', 'w') as f:
                json.dump({k: {'n': len(v), 'examples': v[:3]} for k, v in bysig.items()}, f, indent=1, ensure_ascii=False)
        rc = 0
        if unknown:
            rdir = replay_dir(self.prop)
            seen: set[str] = set()
            for v in unknown:
                sig = v['signature']
                if sig in seen:
                    continue
                seen.add(sig)
                h = hashlib.sha1(sig.encode()).hexdigest()[:10]
                path = rdir / f'{h}.json'
                path.write_text(json.dumps({'property': self.prop, **v}, indent=1, ensure_ascii=False))
                print(f'VIOLATION property={self.prop} replay={path}')
                print(f'  signature: {sig}')
                print('  detail: ' + json.dumps(v['detail'], ensure_ascii=False)[:1500])
                if len(seen) >= 25:
                    print(f'  ... {len(unknown)} violations in total, first 25 signatures shown')
                    break
            rc = 1
        summary = {k: cov[k] for k in ('evaluations', 'distinct_nontrivial', 'states', 'transitions',
                                        'traces_validated_against_impl', 'exhaustive') if k in cov}
        print(f'[{self.prop} {self.tier} seed={self.seed}] {summary} violations={len(unknown)} known={len(known_hits)} wall={wall:.1f}s')
        shutil.rmtree(self.scratch, ignore_errors=True)
        return rc


def replay_dir(prop: str) -> Path:
    base = HOME / 'replays' if REPO == Path('/repo') else Path(os.environ.get('VERIF_REPLAY_DIR', '/dev/shm/verif-replays'))
    d = base / prop
    d.mkdir(parents=True, exist_ok=True)
    return d


def load_known() -> dict:
    p = HOME / 'known_findings.json'
    if not p.exists():
        return {'findings': [], 'fixed': []}
    return json.loads(p.read_text())


def match_known(known: dict, prop: str, signature: str) -> dict | None:
    for k in known.get('findings', []):
        if k['property'] != prop:
            continue
        if k['signature'] == signature:
            return k
    return None
