"""Run a function in a forked child of the current (pristine) process and
return its picklable result.  Used where a check needs a *fresh interpreter
state* per history (process-wide caches are the subject of the property)."""
from __future__ import annotations

import os
import pickle
import sys
import traceback


def in_child(fn, *args, timeout: float = 120.0):
    r, w = os.pipe()
    pid = os.fork()
    if pid == 0:
        # child
        os.close(r)
        try:
            try:
                from .runner import _cov_start, _cov_stop
                cov = _cov_start()
                try:
                    res = ('ok', fn(*args))
                finally:
                    _cov_stop(cov)
            except BaseException as e:  # noqa
                res = ('error', f'{type(e).__name__}: {e}', traceback.format_exc()[-2000:])
            data = pickle.dumps(res)
        except BaseException as e:  # noqa
            data = pickle.dumps(('error', f'unpicklable: {e}', ''))
        with os.fdopen(w, 'wb') as f:
            f.write(data)
        os._exit(0)
    os.close(w)
    chunks = []
    with os.fdopen(r, 'rb') as f:
        while True:
            b = f.read(1 << 16)
            if not b:
                break
            chunks.append(b)
    os.waitpid(pid, 0)
    if not chunks:
        return ('error', 'child died without a result', '')
    return pickle.loads(b''.join(chunks))
