"""Adapter to the implementation under test (the tatsu in $VERIF_REPO)."""
from __future__ import annotations

import contextlib
import io
import sys
from typing import Any

_counter = [0]


def clear_compile_cache():
    import tatsu.api.api as api
    for k, v in vars(api).items():
        if k.endswith('__compiled_grammar_cache') and isinstance(v, dict):
            v.clear()


def compile_text(text: str, **kw):
    """tatsu.compile on a text made unique, so that the (mutable) compile
    cache — the subject of C10 — never leaks between cases."""
    import tatsu
    _counter[0] += 1
    return tatsu.compile(text + f'\n# case {_counter[0]}\n', **kw)


def norm(v: Any, keep_parseinfo: bool = False) -> Any:
    """Plain-Python image of a parse result: AST -> dict, every list flavour ->
    list, tuples -> ('tuple', ...)."""
    from tatsu.contexts.ast import AST
    if isinstance(v, AST) or isinstance(v, dict):
        out = {}
        for k, x in v.items():
            if k in ('parseinfo', '__parseinfo__') and not keep_parseinfo:
                continue
            if k in ('parseinfo', '__parseinfo__'):
                out[k] = None if x is None else (x.rule, x.pos, x.endpos, x.line, x.endline)
            else:
                out[k] = norm(x, keep_parseinfo)
        return out
    if isinstance(v, list):
        return [norm(x, keep_parseinfo) for x in v]
    if isinstance(v, tuple):
        return ['<tuple>'] + [norm(x, keep_parseinfo) for x in v]
    return v


def parse(model, text: str, _keep_parseinfo=None, _start_policy=False, **settings):
    """-> ('ok', normalised value) | ('fail', exception class name, pos)
          | ('exc', class name, message)   for non-TatSu exceptions"""
    from tatsu.exceptions import FailedParse, ParseException
    if _start_policy:
        settings = with_start(model, settings)
    try:
        with contextlib.redirect_stderr(io.StringIO()):
            v = model.parse(text, **settings)
        return ('ok', norm(v, settings.get('parseinfo', False) if _keep_parseinfo is None else _keep_parseinfo))
    except FailedParse as e:
        return ('fail', type(e).__name__, getattr(e, 'pos', None))
    except ParseException as e:
        return ('fail', type(e).__name__, None)
    except RecursionError as e:
        return ('exc', 'RecursionError', '')
    except Exception as e:  # noqa
        return ('exc', type(e).__name__, str(e)[:200])


def with_start(model, settings):
    """Harness policy: a grammar that has a rule called `start` is parsed from it even when an
    includable/base rule had to be defined before it (explicit start=, one of the documented entry points)."""
    try:
        if 'start' not in settings and 'start' in model.rulemap and model.rules[0].name != 'start':
            return dict(settings, start='start')
    except Exception:  # noqa
        pass
    return settings


class Reach:
    """Semantics that records which rules returned a value (one action per rule name)."""

    def __init__(self):
        self.hit = set()

    def __getattr__(self, name):
        if name.startswith('__') or name in ('_default', 'safe_context'):
            raise AttributeError(name)
        hit = self.hit

        def act(ast, *a, **k):
            hit.add(name.strip('_'))
            return ast
        return act


def rule_reach(m, group, label, model, inputs, **settings):
    """Vacuity bookkeeping: which rules of `model` return a value on some input of `inputs`."""
    sem = Reach()
    for t in inputs:
        try:
            with contextlib.redirect_stderr(io.StringIO()):
                model.parse(t, semantics=sem, **settings)
        except Exception:  # noqa
            pass
    for r in model.rules:
        m.reach(group, f'{label}:{r.name}', r.name.strip('_') in sem.hit)
