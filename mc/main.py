"""Entry point: python -m mc.main <ID> [--tier quick|thorough] [--replay FILE]"""
from __future__ import annotations

import argparse
import importlib
import json
import os
import sys

from .runner import RunContext, assert_tree


def main(argv=None) -> int:
    ap = argparse.ArgumentParser()
    ap.add_argument('prop')
    ap.add_argument('--tier', default=os.environ.get('VERIF_TIER', 'quick'), choices=['quick', 'thorough'])
    ap.add_argument('--replay', default=None)
    args = ap.parse_args(argv)
    assert_tree()
    seed = int(os.environ.get('VERIF_SEED', '0') or 0)
    mod = importlib.import_module(f'mc.checks.{args.prop.lower()}')
    if args.replay:
        data = json.load(open(args.replay))
        return int(mod.replay(data))
    rc = RunContext(mod.PROPERTY, mod.LEVEL, args.tier, seed)
    from .runner import _cov_start, _cov_stop
    cov = _cov_start()      # only with VERIF_COV set (tools/covreport.py)
    try:
        mod.run(rc)
    except BaseException:
        import traceback
        rc.violation('harness-crash', trace=traceback.format_exc()[-3000:])
    finally:
        _cov_stop(cov)
    return rc.finish()


if __name__ == '__main__':
    sys.exit(main())
