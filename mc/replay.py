"""Generic replay of a recorded violation without the explorer: re-executes the recorded
(grammar, input, settings) on the implementation and reports whether the recorded
misbehaviour reproduces (exit 1) or not (exit 0)."""
from __future__ import annotations

import json


def replay_grammar_case(data, grammar_of=None):
    from . import impl
    d = data.get('detail', {})
    prop = data.get('property', '?')
    print(json.dumps(d, indent=1, ensure_ascii=False)[:4000])
    gtext = grammar_of(d) if grammar_of else d.get('grammar')
    text = d.get('input')
    if gtext is None or text is None:
        print('replay: this record carries no (grammar, input) pair; see the detail above')
        return 1
    import tatsu
    try:
        model = tatsu.compile(gtext.replace(';; ', ' ;\n\n') if ';; ' in gtext else gtext)
    except Exception as e:  # noqa
        print(f'replay: grammar does not compile now: {type(e).__name__}: {e}')
        return 1
    settings = d.get('settings') if isinstance(d.get('settings'), dict) else {}
    kw = {}
    kw['start'] = d.get('start') or model.rules[0].name
    got = impl.parse(model, text, **settings, **kw)
    print('replayed  :', json.dumps(impl.jsonable(got) if hasattr(impl, 'jsonable') else list(got), ensure_ascii=False, default=repr))
    recorded = d.get('got', d.get('model'))
    print('recorded  :', json.dumps(recorded, ensure_ascii=False, default=repr))
    print('documented:', json.dumps(d.get('want'), ensure_ascii=False, default=repr))
    same = json.loads(json.dumps(list(got), default=repr)) == recorded
    if same:
        print(f'VIOLATION property={prop} replay=reproduced')
        return 1
    print('replay: the recorded misbehaviour does not reproduce on this tree')
    return 0


def replay_by_rerun(module, data):
    """Replay that cannot disagree with the check: runs the check's own quick exploration on the current tree (no
    evidence written) and looks for the recorded case — same signature, same grammar and input where the record has
    them.  Exit 1 if the recorded misbehaviour is reported again, else 0."""
    import os
    from .runner import RunContext
    d = data.get('detail', {})
    sig = data.get('signature')
    prop = data.get('property', module.PROPERTY)
    print(json.dumps(d, indent=1, ensure_ascii=False)[:3000])
    rc = RunContext(module.PROPERTY, module.LEVEL, os.environ.get('VERIF_TIER', 'quick'), int(os.environ.get('VERIF_SEED', '0') or 0))
    rc.no_evidence = True
    module.run(rc)
    same_sig = [v for v in rc.total.violations if v['signature'] == sig]
    keys = [k for k in ('grammar', 'input', 'start', 'settings', 'text', 'expression') if k in d]
    exact = [v for v in same_sig if all(v['detail'].get(k) == d.get(k) for k in keys)]
    if exact:
        print(f'VIOLATION property={prop} replay=reproduced (the recorded case is reported again)')
        return 1
    if same_sig:
        print(f'VIOLATION property={prop} replay=reproduced (signature {sig!r} is reported again, for {len(same_sig)} other recorded cases)')
        return 1
    print('replay: the check no longer reports this signature on this tree')
    return 0
